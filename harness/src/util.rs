//! Small utilities: PRNG, JSON writer, hashing.

#[derive(Clone)]
pub struct Rng(pub u64);

impl Rng {
    pub fn new(seed: u64) -> Self {
        let mut r = Rng(seed ^ 0x9E37_79B9_7F4A_7C15);
        r.next();
        r
    }
    /// splitmix64
    #[inline]
    pub fn next(&mut self) -> u64 {
        self.0 = self.0.wrapping_add(0x9E37_79B9_7F4A_7C15);
        let mut z = self.0;
        z = (z ^ (z >> 30)).wrapping_mul(0xBF58_476D_1CE4_E5B9);
        z = (z ^ (z >> 27)).wrapping_mul(0x94D0_49BB_1331_11EB);
        z ^ (z >> 31)
    }
    #[inline]
    pub fn below(&mut self, n: usize) -> usize {
        if n == 0 { 0 } else { (self.next() % n as u64) as usize }
    }
    #[inline]
    pub fn range(&mut self, lo: usize, hi_incl: usize) -> usize {
        lo + self.below(hi_incl - lo + 1)
    }
    #[inline]
    pub fn chance(&mut self, num: usize, den: usize) -> bool {
        self.below(den) < num
    }
    pub fn pick<'a, T>(&mut self, xs: &'a [T]) -> &'a T {
        &xs[self.below(xs.len())]
    }
    pub fn fork(&mut self, salt: u64) -> Rng {
        Rng::new(self.next() ^ salt.wrapping_mul(0xD6E8_FEB8_6659_FD93))
    }
}

#[inline]
pub fn mix(h: u64, v: u64) -> u64 {
    let mut z = (h ^ v).wrapping_mul(0xFF51_AFD7_ED55_8CCD);
    z ^= z >> 33;
    z = z.wrapping_mul(0xC4CE_B9FE_1A85_EC53);
    z ^ (z >> 29)
}

pub fn hash_bytes(mut h: u64, b: &[u8]) -> u64 {
    for &x in b {
        h = (h ^ x as u64).wrapping_mul(0x100_0000_01B3);
    }
    mix(h, b.len() as u64)
}

pub fn jstr(s: &str) -> String {
    let mut o = String::with_capacity(s.len() + 2);
    o.push('"');
    for c in s.chars() {
        match c {
            '"' => o.push_str("\\\""),
            '\\' => o.push_str("\\\\"),
            '\n' => o.push_str("\\n"),
            '\r' => o.push_str("\\r"),
            '\t' => o.push_str("\\t"),
            c if (c as u32) < 0x20 => o.push_str(&format!("\\u{:04x}", c as u32)),
            c => o.push(c),
        }
    }
    o.push('"');
    o
}

/// Minimal JSON object builder (values are pre-rendered JSON).
#[derive(Default, Clone)]
pub struct J(Vec<(String, String)>);

impl J {
    pub fn new() -> Self {
        J(Vec::new())
    }
    pub fn s(mut self, k: &str, v: &str) -> Self {
        self.0.push((k.into(), jstr(v)));
        self
    }
    pub fn n(mut self, k: &str, v: u64) -> Self {
        self.0.push((k.into(), v.to_string()));
        self
    }
    pub fn i(mut self, k: &str, v: i64) -> Self {
        self.0.push((k.into(), v.to_string()));
        self
    }
    pub fn b(mut self, k: &str, v: bool) -> Self {
        self.0.push((k.into(), v.to_string()));
        self
    }
    pub fn raw(mut self, k: &str, v: String) -> Self {
        self.0.push((k.into(), v));
        self
    }
    pub fn render(&self) -> String {
        let mut o = String::from("{");
        for (i, (k, v)) in self.0.iter().enumerate() {
            if i > 0 {
                o.push(',');
            }
            o.push_str(&jstr(k));
            o.push(':');
            o.push_str(v);
        }
        o.push('}');
        o
    }
}

pub fn jarr<I: IntoIterator<Item = String>>(items: I) -> String {
    let v: Vec<String> = items.into_iter().collect();
    format!("[{}]", v.join(","))
}

pub fn jmap_u64<'a, I: IntoIterator<Item = (&'a String, &'a u64)>>(items: I) -> String {
    let v: Vec<String> = items.into_iter().map(|(k, v)| format!("{}:{}", jstr(k), v)).collect();
    format!("{{{}}}", v.join(","))
}

pub fn emit(line: &str) {
    use std::io::Write;
    let out = std::io::stdout();
    let mut l = out.lock();
    let _ = l.write_all(line.as_bytes());
    let _ = l.write_all(b"\n");
    let _ = l.flush();
}

/// Text alphabet: chars of every UTF-8 width.
pub const W1: &[char] = &['a', 'b', 'c', 'x', 'y', 'z', '0', '9', ' ', '~', '\0', '\x7f'];
pub const W2: &[char] = &['é', 'ß', 'ñ', '\u{80}', '\u{7ff}'];
pub const W3: &[char] = &['€', '世', '\u{800}', '\u{ffff}', '\u{fffd}', '\u{feff}'];
pub const W4: &[char] = &['𝄞', '🦀', '\u{10000}', '\u{10ffff}'];

pub fn gen_char(r: &mut Rng) -> char {
    match r.below(10) {
        0..=5 => *r.pick(W1),
        6 => *r.pick(W2),
        7 => *r.pick(W3),
        _ => *r.pick(W4),
    }
}

/// Text with exactly `len` bytes (mixed widths, padded with ASCII).
pub fn gen_text(r: &mut Rng, len: usize) -> String {
    let mut s = String::with_capacity(len);
    let ascii_only = r.chance(1, 4);
    while s.len() < len {
        let room = len - s.len();
        let c = if ascii_only { *r.pick(W1) } else { gen_char(r) };
        if c.len_utf8() <= room {
            s.push(c);
        } else {
            s.push(*r.pick(&W1[..10]));
        }
    }
    s
}

pub static MAX_TEXT_LEN: std::sync::atomic::AtomicUsize = std::sync::atomic::AtomicUsize::new(5000);

/// Boundary-biased length.
pub fn gen_len(r: &mut Rng) -> usize {
    let max = MAX_TEXT_LEN.load(std::sync::atomic::Ordering::Relaxed);
    if max > 5000 && r.chance(1, 12) {
        // "big" runs: occasionally a text far beyond the usual sizes
        return r.below(max);
    }
    let l = gen_len_raw(r);
    if l > max { l % (max + 1) } else { l }
}

fn gen_len_raw(r: &mut Rng) -> usize {
    match r.below(20) {
        0 => 0,
        1 => 1,
        2 => 15,
        3 => 16,
        4 => 17,
        5 => 31,
        6 => 32,
        7 => 33,
        8..=12 => r.below(20),
        13..=15 => r.below(48),
        16..=17 => r.below(130),
        18 => r.below(600),
        _ => r.below(5000),
    }
}

pub fn short_len(r: &mut Rng) -> usize {
    // now and then a piece that is long compared with the usual targets (longer than the tail it
    // is inserted before, longer than any block a chunked implementation might use)
    if r.chance(1, 40) && MAX_TEXT_LEN.load(std::sync::atomic::Ordering::Relaxed) >= 1000 {
        return r.range(100, 700);
    }
    match r.below(10) {
        0 => 0,
        1..=5 => r.range(1, 4),
        6..=7 => r.range(1, 9),
        8 => r.range(8, 20),
        _ => r.range(0, 40),
    }
}

/// Identity hasher for already-mixed u64 keys (cheap under Miri).
#[derive(Default, Clone, Copy)]
pub struct IdHasher(u64);
impl std::hash::Hasher for IdHasher {
    fn finish(&self) -> u64 {
        self.0
    }
    fn write(&mut self, bytes: &[u8]) {
        for b in bytes {
            self.0 = self.0.rotate_left(8) ^ *b as u64;
        }
    }
    fn write_u64(&mut self, i: u64) {
        self.0 = i;
    }
    fn write_usize(&mut self, i: usize) {
        self.0 = i as u64;
    }
}
pub type IdBuild = std::hash::BuildHasherDefault<IdHasher>;
pub type U64Set = std::collections::HashSet<u64, IdBuild>;
pub type U64Map<V> = std::collections::HashMap<u64, V, IdBuild>;

/// Sorted-vector set of u64 (cheap under Miri, compact).
#[derive(Default, Clone)]
pub struct SigSet(pub Vec<u64>);
impl SigSet {
    pub fn insert(&mut self, v: u64) -> bool {
        match self.0.binary_search(&v) {
            Ok(_) => false,
            Err(i) => {
                self.0.insert(i, v);
                true
            }
        }
    }
    pub fn len(&self) -> usize {
        self.0.len()
    }
    pub fn iter(&self) -> std::slice::Iter<'_, u64> {
        self.0.iter()
    }
}
