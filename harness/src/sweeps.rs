//! Input sweeps with std as the oracle: C14 (integers), C15 (everything else + floats),
//! C16 (UTF-8 / UTF-16 decoding), C19 (serde / arbitrary; needs feature `extra`).

use crate::explore::Viol;
use crate::ops::kind_of;
use crate::util::*;
use crate::{Args, emit_viol_case};
use lean_string::{LeanString, ToLeanString, ToLeanStringError};
use std::collections::BTreeMap;
use std::fmt::{self, Write as _};
use std::num::NonZero;
use std::sync::Mutex;
use std::sync::atomic::{AtomicU64, Ordering::Relaxed};

pub struct StackBuf {
    pub buf: [u8; 64],
    pub len: usize,
}
impl StackBuf {
    pub fn new() -> Self {
        StackBuf { buf: [0; 64], len: 0 }
    }
    pub fn bytes(&self) -> &[u8] {
        &self.buf[..self.len]
    }
}
impl fmt::Write for StackBuf {
    fn write_str(&mut self, s: &str) -> fmt::Result {
        let b = s.as_bytes();
        if self.len + b.len() > self.buf.len() {
            return Err(fmt::Error);
        }
        self.buf[self.len..self.len + b.len()].copy_from_slice(b);
        self.len += b.len();
        Ok(())
    }
}

/// Runs a crate call; a panic (where std has none) is a finding, not a harness crash.
fn guarded<R>(sink: &Sink, monitor: &'static str, case: impl FnOnce() -> String, f: impl FnOnce() -> R) -> Option<R> {
    match std::panic::catch_unwind(std::panic::AssertUnwindSafe(f)) {
        Ok(r) => Some(r),
        Err(p) => {
            sink.viol(monitor, case(), format!("the call panicked: {:?}", crate::ops::panic_msg(p)));
            None
        }
    }
}

struct Sink {
    engine: &'static str,
    prop: usize,
    seed: u64,
    viols: Mutex<Vec<(String, String)>>,
    nviol: AtomicU64,
    evals: AtomicU64,
    cells: Mutex<BTreeMap<String, u64>>,
    samples: Mutex<Vec<String>>,
}

impl Sink {
    fn new(engine: &'static str, prop: usize, seed: u64) -> Sink {
        Sink {
            engine,
            prop,
            seed,
            viols: Mutex::new(Vec::new()),
            nviol: AtomicU64::new(0),
            evals: AtomicU64::new(0),
            cells: Mutex::new(BTreeMap::new()),
            samples: Mutex::new(Vec::new()),
        }
    }
    fn viol(&self, monitor: &'static str, case: String, msg: String) {
        let n = self.nviol.fetch_add(1, Relaxed);
        if n < 6 {
            emit_viol_case(self.engine, &Viol { prop: self.prop, monitor, msg: msg.clone() }, self.seed, &case, &[]);
        }
        self.viols.lock().unwrap().push((case, msg));
    }
    fn cell(&self, k: &str, n: u64) {
        *self.cells.lock().unwrap().entry(k.to_string()).or_insert(0) += n;
    }
    fn merge_cells(&self, local: BTreeMap<String, u64>) {
        let mut g = self.cells.lock().unwrap();
        for (k, v) in local {
            *g.entry(k).or_insert(0) += v;
        }
    }
    fn sample(&self, s: String) {
        let mut g = self.samples.lock().unwrap();
        if g.len() < 8 {
            g.push(s);
        }
    }
    fn finish(&self, a: &Args, exhaustive: Option<String>, counters: Vec<(String, u64)>) {
        let _ = a;
        let cells = self.cells.lock().unwrap();
        let sigs = jarr(cells.keys().map(|k| hash_bytes(1, k.as_bytes()).to_string()));
        let mut ctr: Vec<String> = cells.iter().map(|(k, v)| format!("{}:{}", jstr(&format!("cell:{k}")), v)).collect();
        for (k, v) in counters {
            ctr.push(format!("{}:{}", jstr(&k), v));
        }
        let mut ec = J::new()
            .n("evals", self.evals.load(Relaxed))
            .raw("sigs", sigs)
            .raw("samples", jarr(self.samples.lock().unwrap().iter().map(|s| jstr(s))))
            .raw("counters", format!("{{{}}}", ctr.join(",")))
            .raw("info", "{}".into());
        if let Some(sc) = exhaustive {
            ec = ec.b("exhaustive", true).s("exhaustive_scope", &sc);
        }
        emit(
            &J::new()
                .s("t", "stat")
                .s("engine", self.engine)
                .n("seed", self.seed)
                .n("violations", self.nviol.load(Relaxed))
                .raw("ecov", ec.render())
                .render(),
        );
    }
}

fn threads(a: &Args) -> usize {
    a.num("threads", 1).max(1) as usize
}

/// Runs `f(lo, hi)` over `[0, total)` split into chunks across threads.
fn par_ranges(nthreads: usize, total: u64, f: &(dyn Fn(u64, u64) + Sync)) {
    if nthreads <= 1 {
        f(0, total);
        return;
    }
    let chunk = total.div_ceil(nthreads as u64);
    std::thread::scope(|s| {
        for i in 0..nthreads as u64 {
            let lo = i * chunk;
            let hi = ((i + 1) * chunk).min(total);
            if lo < hi {
                s.spawn(move || f(lo, hi));
            }
        }
    });
}

// ---------------------------------------------------------------------------------------------
// C14

fn digits_of(b: &[u8]) -> usize {
    b.len() - (b.first() == Some(&b'-')) as usize
}

macro_rules! check_int {
    ($sink:expr, $local:expr, $x:expr, $tyname:expr) => {{
        let x = $x;
        let mut sb = StackBuf::new();
        write!(sb, "{}", x).unwrap();
        let Some(l) = guarded($sink, "int-display", || format!("{} {}", $tyname, std::str::from_utf8(sb.bytes()).unwrap()), || x.to_lean_string()) else { continue };
        if l.as_bytes() != sb.bytes() {
            $sink.viol(
                "int-display",
                format!("{} {}", $tyname, std::str::from_utf8(sb.bytes()).unwrap()),
                format!(
                    "{}::to_lean_string() = {:?} but Display writes {:?}",
                    $tyname,
                    String::from_utf8_lossy(l.as_bytes()),
                    std::str::from_utf8(sb.bytes()).unwrap()
                ),
            );
        } else if l.is_heap_allocated() != (sb.len > crate::ops::INLINE_CAP) {
            $sink.viol(
                "int-storage",
                format!("{} {}", $tyname, std::str::from_utf8(sb.bytes()).unwrap()),
                format!("{} digits text but is_heap_allocated() = {}", sb.len, l.is_heap_allocated()),
            );
        }
        let key = (digits_of(sb.bytes()) as u32) * 2 + (sb.buf[0] == b'-') as u32;
        $local[key as usize] += 1;
    }};
}

macro_rules! int_type {
    ($sink:expr, $a:expr, $t:ty, $name:expr, $exhaustive:expr, $random:expr, $r:expr) => {{
        let nthreads = threads($a);
        let bits = <$t>::BITS;
        let mut exhausted = false;
        let total_cells: Mutex<[u64; 96]> = Mutex::new([0; 96]);
        if bits <= 16 || ($exhaustive && bits <= 32) {
            exhausted = true;
            let total = 1u64 << bits;
            par_ranges(nthreads, total, &|lo, hi| {
                let mut local = [0u64; 96];
                for v in lo..hi {
                    let x = v as $t;
                    check_int!($sink, local, x, $name);
                    if let Some(nz) = NonZero::<$t>::new(x) {
                        check_int!($sink, local, nz, concat!("NonZero<", stringify!($t), ">"));
                    }
                }
                let mut g = total_cells.lock().unwrap();
                for i in 0..96 {
                    g[i] += local[i];
                }
                $sink.evals.fetch_add(2 * (hi - lo), Relaxed);
            });
        } else {
            // boundary set: every 10^k and 2^k with +-3 neighbours, both signs, type extremes +-3
            let mut local = [0u64; 96];
            let mut vals: Vec<i128> = Vec::new();
            let kstep = $a.num("kstep", 1).max(1) as usize;
            for k in (0..39u32).step_by(kstep) {
                let p = 10i128.checked_pow(k);
                if let Some(p) = p {
                    for d in -3i128..=3 {
                        vals.push(p + d);
                        vals.push(-(p + d));
                    }
                }
            }
            for k in (0..127u32).step_by(kstep) {
                let p = 1i128 << k;
                for d in -3i128..=3 {
                    vals.push(p + d);
                    vals.push(-(p + d));
                }
            }
            for d in 0..=3 {
                vals.push((<$t>::MAX as i128).wrapping_sub(d));
                vals.push((<$t>::MIN as i128).wrapping_add(d));
            }
            let mut n = 0u64;
            for v in vals {
                // keep only values representable in the type (wrapping would just duplicate others)
                if (v as $t) as i128 == v || bits == 128 {
                    let x = v as $t;
                    check_int!($sink, local, x, $name);
                    if let Some(nz) = NonZero::<$t>::new(x) {
                        check_int!($sink, local, nz, concat!("NonZero<", stringify!($t), ">"));
                    }
                    n += 2;
                }
            }
            if bits == 128 {
                // u128 upper half cannot be expressed through i128 values above
                for d in 0..=3u128 {
                    let x = (u128::MAX - d) as $t;
                    check_int!($sink, local, x, $name);
                    n += 1;
                }
            }
            $sink.evals.fetch_add(n, Relaxed);
            let mut g = total_cells.lock().unwrap();
            for i in 0..96 {
                g[i] += local[i];
            }
            drop(g);
            // stratified random: equal share per digit count
            let per_digit = ($random as u64) / 40 + 1;
            let seed0 = $r.next();
            let maxd: u32 = if bits == 128 { 39 } else if bits == 64 { 20 } else { 10 };
            par_ranges(nthreads, maxd as u64, &|lo, hi| {
                let mut local = [0u64; 96];
                let mut n = 0u64;
                for d in (lo as u32 + 1)..=(hi as u32) {
                    let mut r = Rng::new(seed0 ^ (d as u64) << 32);
                    let lo_v: u128 = if d == 1 { 0 } else { 10u128.pow(d - 1) };
                    let hi_v: u128 = if d >= 39 { u128::MAX } else { 10u128.pow(d) - 1 };
                    for _ in 0..per_digit {
                        let raw = ((r.next() as u128) << 64) | r.next() as u128;
                        let v = lo_v + raw % (hi_v - lo_v + 1);
                        let neg = r.chance(1, 2);
                        let vi = if neg { (v as i128).wrapping_neg() } else { v as i128 };
                        let x = vi as $t;
                        // only count values that really have d digits in this type
                        check_int!($sink, local, x, $name);
                        if let Some(nz) = NonZero::<$t>::new(x) {
                            check_int!($sink, local, nz, concat!("NonZero<", stringify!($t), ">"));
                        }
                        n += 2;
                    }
                }
                let mut g = total_cells.lock().unwrap();
                for i in 0..96 {
                    g[i] += local[i];
                }
                $sink.evals.fetch_add(n, Relaxed);
            });
        }
        let g = total_cells.lock().unwrap();
        for i in 0..96 {
            if g[i] > 0 {
                $sink.cell(&format!("{}|digits={}|{}", $name, i / 2, if i % 2 == 1 { "neg" } else { "nonneg" }), g[i]);
            }
        }
        exhausted
    }};
}

pub fn engine_ints(a: &Args) {
    crate::install_shim(a);
    let seed = a.num("seed", 1);
    let mut r = Rng::new(seed);
    let sink = Sink::new("ints", 14, seed);
    let exhaustive32 = a.flag("exhaustive32");
    let random = a.num("random", 1_000_000);
    let only = a.get("only");
    let mut exhausted: Vec<&str> = Vec::new();
    macro_rules! go {
        ($t:ty, $n:expr) => {
            if only.map(|o| o == $n).unwrap_or(true) {
                if int_type!(&sink, a, $t, $n, exhaustive32, random, r) {
                    exhausted.push($n);
                }
            }
        };
    }
    go!(i8, "i8");
    go!(u8, "u8");
    go!(i16, "i16");
    go!(u16, "u16");
    go!(i32, "i32");
    go!(u32, "u32");
    go!(i64, "i64");
    go!(u64, "u64");
    go!(isize, "isize");
    go!(usize, "usize");
    go!(i128, "i128");
    go!(u128, "u128");
    sink.sample(format!("i64::MIN -> {:?}", i64::MIN.to_lean_string().as_str()));
    sink.sample(format!("u128::MAX -> {:?}", u128::MAX.to_lean_string().as_str()));
    sink.sample(format!("NonZero<i8>(-128) -> {:?}", NonZero::<i8>::new(-128).unwrap().to_lean_string().as_str()));
    sink.sample(format!("9999999999999999u64 (16 digits, inline) -> heap={}", 9999999999999999u64.to_lean_string().is_heap_allocated()));
    let scope = format!("every value of {} and of their NonZero forms", exhausted.join(", "));
    sink.finish(a, if exhausted.is_empty() { None } else { Some(scope) }, vec![("types_exhausted".into(), exhausted.len() as u64)]);
}

// ---------------------------------------------------------------------------------------------
// C15

struct Script<'a> {
    pieces: &'a [String],
    fail_after: Option<usize>,
    style: usize,
}
impl fmt::Display for Script<'_> {
    fn fmt(&self, f: &mut fmt::Formatter<'_>) -> fmt::Result {
        for (i, p) in self.pieces.iter().enumerate() {
            if Some(i) == self.fail_after {
                return Err(fmt::Error);
            }
            match (i + self.style) % 4 {
                0 => f.write_str(p)?,
                1 => write!(f, "{}", p)?,
                2 => {
                    for c in p.chars() {
                        f.write_char(c)?
                    }
                }
                _ => write!(f, "{:>1$}", p, (i + self.style) % 7)?,
            }
        }
        if Some(self.pieces.len()) == self.fail_after {
            return Err(fmt::Error);
        }
        Ok(())
    }
}

fn fclass(cat: std::num::FpCategory, neg: bool, heap: bool) -> usize {
    use std::num::FpCategory::*;
    let c = match cat {
        Zero => 0,
        Subnormal => 1,
        Normal => 2,
        Infinite => 3,
        Nan => 4,
    };
    c * 4 + (neg as usize) * 2 + heap as usize
}
const FCLASS_NAMES: [&str; 5] = ["zero", "subnormal", "normal", "infinite", "nan"];

fn merge_fcells(sink: &Sink, ty: &str, cells: &[u64; 20]) {
    let mut m = BTreeMap::new();
    for (i, n) in cells.iter().enumerate() {
        if *n > 0 {
            m.insert(format!("{}|{}|{}|{}", ty, FCLASS_NAMES[i / 4], if i / 2 % 2 == 1 { "neg" } else { "pos" }, if i % 2 == 1 { "text>16(heap)" } else { "text<=16(inline)" }), *n);
        }
    }
    sink.merge_cells(m);
}

fn check_f32(sink: &Sink, bits: u32, cells: &mut [u64; 20]) {
    let x = f32::from_bits(bits);
    let Some(l) = guarded(sink, "float-roundtrip", || format!("f32 bits {bits:#010x}"), || x.to_lean_string()) else { return };
    match l.as_str().parse::<f32>() {
        Ok(y) if (x.is_nan() && y.is_nan()) || y.to_bits() == x.to_bits() => {}
        other => sink.viol("float-roundtrip", format!("f32 bits {bits:#010x}"), format!("text {:?} parses back as {:?}", l.as_str(), other)),
    }
    if l.is_heap_allocated() != (l.len() > crate::ops::INLINE_CAP) {
        sink.viol("float-storage", format!("f32 bits {bits:#010x}"), format!("len {} heap {}", l.len(), l.is_heap_allocated()));
    }
    cells[fclass(x.classify(), x.is_sign_negative(), l.len() > crate::ops::INLINE_CAP)] += 1;
}
fn check_f64(sink: &Sink, bits: u64, cells: &mut [u64; 20]) {
    let x = f64::from_bits(bits);
    let Some(l) = guarded(sink, "float-roundtrip", || format!("f64 bits {bits:#018x}"), || x.to_lean_string()) else { return };
    match l.as_str().parse::<f64>() {
        Ok(y) if (x.is_nan() && y.is_nan()) || y.to_bits() == x.to_bits() => {}
        other => sink.viol("float-roundtrip", format!("f64 bits {bits:#018x}"), format!("text {:?} parses back as {:?}", l.as_str(), other)),
    }
    if l.is_heap_allocated() != (l.len() > crate::ops::INLINE_CAP) {
        sink.viol("float-storage", format!("f64 bits {bits:#018x}"), format!("len {} heap {}", l.len(), l.is_heap_allocated()));
    }
    cells[fclass(x.classify(), x.is_sign_negative(), l.len() > crate::ops::INLINE_CAP)] += 1;
}

pub fn engine_tls(a: &Args) {
    crate::install_shim(a);
    let seed = a.num("seed", 1);
    let mut r = Rng::new(seed);
    let sink = Sink::new("tls", 15, seed);
    let nthreads = threads(a);
    let miri = a.num("miri", 0) == 1;
    let mut exhaustive: Vec<String> = Vec::new();
    // bool
    for b in [true, false] {
        if b.to_lean_string() != b.to_string() || b.try_to_lean_string().unwrap() != b.to_string() {
            sink.viol("tls-display", format!("bool {b}"), "differs from to_string()".into());
        }
        sink.cell("arm:bool", 2);
    }
    exhaustive.push("both bools".into());
    // char
    let char_stride = a.num("char-stride", 1);
    let total_chars = 0x110000u64;
    par_ranges(nthreads, total_chars, &|lo, hi| {
        let mut n = 0;
        let mut widths = [0u64; 5];
        let mut v = lo + (seed % char_stride);
        while v < hi {
            if let Some(c) = char::from_u32(v as u32) {
                widths[c.len_utf8()] += 1;
                let l = c.to_lean_string();
                let mut b = [0u8; 4];
                if l.as_str() != c.encode_utf8(&mut b) || l.is_heap_allocated() {
                    sink.viol("tls-display", format!("char U+{v:04X}"), format!("to_lean_string() = {:?}", l.as_str()));
                }
                n += 1;
            }
            v += char_stride;
        }
        sink.evals.fetch_add(n, Relaxed);
        sink.cell("arm:char", n);
        for w in 1..5 {
            if widths[w] > 0 {
                sink.cell(&format!("char|utf8-width={w}"), widths[w]);
            }
        }
    });
    if char_stride == 1 {
        exhaustive.push("all 1112064 chars".into());
    }
    // String, LeanString (every storage kind), &str and other Display types
    let n_str = a.num("strings", 20000);
    let mut kinds_seen = [0u64; 3];
    for i in 0..n_str {
        let len = gen_len(&mut r).min(300);
        let s = gen_text(&mut r, len);
        let l = s.to_lean_string();
        if l != s || s.try_to_lean_string().unwrap() != s {
            sink.viol("tls-display", format!("String {s:?}"), format!("to_lean_string() = {:?}", l.as_str()));
        }
        sink.cell("arm:String", 1);
        sink.cell(&format!("String|len={}", match len { 0 => "0", 1..=15 => "1-15", 16 => "16", 17..=64 => "17-64", _ => "65+" }), 1);
        // LeanString in several storage kinds
        let src: LeanString = match i % 4 {
            0 => LeanString::from(s.as_str()),
            1 => {
                let id = crate::ops::register_static(&format!("static text #{:03} {}", i % 64, "-pad".repeat((i % 7) as usize)));
                LeanString::from_static_str(crate::ops::static_text(id))
            }
            2 => {
                let mut x = LeanString::with_capacity(len + 20);
                x.push_str(&s);
                x
            }
            _ => {
                let mut x = LeanString::from(s.as_str());
                x.truncate(s.floor_char_boundary(len / 2));
                x
            }
        };
        kinds_seen[kind_of(&src) as usize] += 1;
        let l2 = src.to_lean_string();
        if l2 != src.to_string() || l2.as_ptr() != src.as_ptr() && src.len() > 16 {
            sink.viol("tls-display", format!("LeanString {:?}", src.as_str()), "to_lean_string() differs from to_string() or deep-copied".into());
        }
        sink.cell("arm:LeanString", 1);
        // generic arm: &str, Box<str>, fmt::Arguments, wrappers
        let sr: &str = s.as_str();
        let bx: Box<str> = s.clone().into_boxed_str();
        if sr.to_lean_string() != s || bx.to_lean_string() != s || format_args!("{}-{}", sr, i).to_lean_string() != format!("{}-{}", sr, i) {
            sink.viol("tls-display", format!("generic Display {s:?}"), "differs from to_string()".into());
        }
        let w = std::num::Wrapping(i as i32 - 500);
        if w.to_lean_string() != w.to_string() {
            sink.viol("tls-display", format!("Wrapping {w}"), "differs from to_string()".into());
        }
        sink.cell("arm:generic", 4);
        sink.evals.fetch_add(7, Relaxed);
    }
    sink.cell("leanstring_src_inline", kinds_seen[0]);
    sink.cell("leanstring_src_static", kinds_seen[1]);
    sink.cell("leanstring_src_heap", kinds_seen[2]);
    // scripted Display impls: every error position
    let n_scripts = a.num("scripts", 3000);
    for i in 0..n_scripts {
        let np = r.below(7);
        let pieces: Vec<String> = (0..np)
            .map(|_| {
                let l = match r.below(6) {
                    0 => 0,
                    1 => 16,
                    2 => 17,
                    _ => short_len(&mut r),
                };
                gen_text(&mut r, l)
            })
            .collect();
        let style = i as usize;
        let ok = Script { pieces: &pieces, fail_after: None, style };
        let expect = ok.to_string();
        if ok.to_lean_string() != expect || ok.try_to_lean_string().unwrap() != expect {
            sink.viol("tls-display", format!("script {pieces:?} style {style}"), "differs from to_string()".into());
        }
        sink.cell("arm:generic", 2);
        for j in 0..=np {
            let bad = Script { pieces: &pieces, fail_after: Some(j), style };
            match bad.try_to_lean_string() {
                Err(ToLeanStringError::Fmt(_)) => {}
                other => sink.viol(
                    "tls-fmt-error",
                    format!("script {pieces:?} failing after {j} pieces"),
                    format!("try_to_lean_string() = {:?}, expected Err(Fmt)", other.map(|s| s.to_string())),
                ),
            }
            let r2 = std::panic::catch_unwind(std::panic::AssertUnwindSafe(|| bad.to_lean_string()));
            if let Ok(s) = r2 {
                sink.viol("tls-fmt-error", format!("script {pieces:?} failing after {j} pieces"), format!("to_lean_string() returned a partial string {:?}", s.as_str()));
            }
            sink.cell("generic_fmt_error_positions", 1);
            sink.cell(&format!("script|pieces={}|fails_after={}|written_before>16={}", np.min(4), j.min(4), pieces[..j.min(np)].iter().map(|p| p.len()).sum::<usize>() > 16), 1);
            sink.evals.fetch_add(2, Relaxed);
        }
        sink.evals.fetch_add(2, Relaxed);
    }
    // floats
    let mut specials32: Vec<u32> = vec![0, 0x8000_0000, 0x7F80_0000, 0xFF80_0000, 0x7FC0_0000, 0xFFC0_0001, 0x7F80_0001, 1, 0x007F_FFFF, 0x0080_0000, 0x7F7F_FFFF];
    for e in (0..256u32).step_by(if miri { 37 } else { 1 }) {
        for m in [0u32, 1, 0x7F_FFFF, 0x40_0000, 0x2A_AAAA] {
            specials32.push(e << 23 | m);
            specials32.push(1 << 31 | e << 23 | m);
        }
    }
    let mut fc = [0u64; 20];
    for b in &specials32 {
        check_f32(&sink, *b, &mut fc);
    }
    merge_fcells(&sink, "f32", &fc);
    sink.cell("arm:f32", specials32.len() as u64);
    sink.evals.fetch_add(specials32.len() as u64, Relaxed);
    if a.flag("f32-exhaustive") {
        par_ranges(nthreads, 1u64 << 32, &|lo, hi| {
            let mut fc = [0u64; 20];
            for b in lo..hi {
                check_f32(&sink, b as u32, &mut fc);
            }
            merge_fcells(&sink, "f32", &fc);
            sink.evals.fetch_add(hi - lo, Relaxed);
            sink.cell("arm:f32", hi - lo);
        });
        exhaustive.push("all 2^32 f32 bit patterns".into());
    } else {
        let mant = a.num("f32-mantissas", if miri { 2 } else { 4096 });
        let seed0 = r.next();
        par_ranges(nthreads, 512, &|lo, hi| {
            let mut rr = Rng::new(seed0 ^ lo);
            let mut n = 0;
            let mut fc = [0u64; 20];
            for se in lo..hi {
                for _ in 0..mant {
                    let m = (rr.next() as u32) & 0x7F_FFFF;
                    check_f32(&sink, (se as u32) << 23 | m, &mut fc);
                    n += 1;
                }
            }
            merge_fcells(&sink, "f32", &fc);
            sink.evals.fetch_add(n, Relaxed);
            sink.cell("arm:f32", n);
        });
    }
    let mut specials64: Vec<u64> = vec![0, 1 << 63, 0x7FF0_0000_0000_0000, 0xFFF0_0000_0000_0000, 0x7FF8_0000_0000_0000, 0xFFF8_0000_0000_0001, 0x7FF0_0000_0000_0001, 1, 0x000F_FFFF_FFFF_FFFF, 0x0010_0000_0000_0000, 0x7FEF_FFFF_FFFF_FFFF];
    let exp_stride = if miri { 97 } else { 1 };
    for e in (0..2048u64).step_by(exp_stride) {
        for s in [0u64, 1] {
            for m in [0u64, 1, (1 << 52) - 1, 1 << 51, 1 << 26, 0x000A_AAAA_AAAA_AAAA] {
                specials64.push(s << 63 | e << 52 | m);
            }
        }
    }
    let mut fc = [0u64; 20];
    for b in &specials64 {
        check_f64(&sink, *b, &mut fc);
    }
    merge_fcells(&sink, "f64", &fc);
    sink.cell("arm:f64", specials64.len() as u64);
    sink.evals.fetch_add(specials64.len() as u64, Relaxed);
    let n64 = a.num("f64-random", 2_000_000);
    let seed0 = r.next();
    par_ranges(nthreads, n64, &|lo, hi| {
        let mut rr = Rng::new(seed0 ^ lo);
        let mut fc = [0u64; 20];
        for i in lo..hi {
            // half uniformly random bit patterns, half "every exponent" with random mantissa
            let b = if i % 2 == 0 { rr.next() } else { (rr.next() & 0x800F_FFFF_FFFF_FFFF) | ((i / 2 % 2048) << 52) };
            check_f64(&sink, b, &mut fc);
        }
        merge_fcells(&sink, "f64", &fc);
        sink.evals.fetch_add(hi - lo, Relaxed);
        sink.cell("arm:f64", hi - lo);
    });
    sink.sample(format!("f64 1e16 -> {:?} (Display prints {:?}; only the round trip is specified)", 1e16f64.to_lean_string().as_str(), 1e16f64.to_string()));
    sink.sample(format!("f32 NaN -> {:?}", f32::NAN.to_lean_string().as_str()));
    sink.sample(format!("-0.0f64 -> {:?}", (-0.0f64).to_lean_string().as_str()));
    sink.sample("Script{pieces:[\"ab\",\"\",\"0123456789abcdefg\"], fail_after: Some(2)}.try_to_lean_string() == Err(Fmt)".into());
    sink.finish(a, if exhaustive.is_empty() { None } else { Some(exhaustive.join("; ")) }, vec![]);
}

// ---------------------------------------------------------------------------------------------
// C16

const ALPHA_MIN: [u8; 16] = [0x41, 0x80, 0x90, 0xA0, 0xBF, 0xC0, 0xC2, 0xE0, 0xE1, 0xED, 0xEE, 0xF0, 0xF1, 0xF4, 0xF5, 0xFF];
// 25 class boundaries + 0xBB and 0xFE so that well-known signatures (EF BB BF, FE FF, FF FE) occur
const ALPHA_EXT: [u8; 27] = [
    0x41, 0x80, 0x90, 0xA0, 0xBF, 0xC0, 0xC2, 0xE0, 0xE1, 0xED, 0xEE, 0xF0, 0xF1, 0xF4, 0xF5, 0xFF, 0x00, 0x7F, 0x8F, 0x9F, 0xC1, 0xDF, 0xEC, 0xEF, 0xF3, 0xBB, 0xFE,
];
const ALPHA_U16: [u16; 12] = [0x0000, 0x0041, 0xD7FF, 0xD800, 0xDBFF, 0xDC00, 0xDFFF, 0xE000, 0xFFFD, 0xFFFF, 0xFEFF, 0xFFFE];

/// full dump for short inputs; for long ones the length and the neighbourhood of the first non-ASCII byte
fn fmt8(b: &[u8]) -> String {
    if b.len() <= 96 {
        return format!("{b:02x?}");
    }
    match b.iter().position(|x| *x >= 0x80) {
        Some(i) => format!("{} bytes, ASCII except from offset {}: {:02x?} ... (last bytes {:02x?})", b.len(), i, &b[i..(i + 8).min(b.len())], &b[b.len() - 4..]),
        None => format!("{} ASCII bytes", b.len()),
    }
}
fn fmt16(u: &[u16]) -> String {
    if u.len() <= 64 {
        return format!("{u:04x?}");
    }
    match u.iter().position(|x| *x >= 0x80) {
        Some(i) => format!("{} units, ASCII except from offset {}: {:04x?} ...", u.len(), i, &u[i..(i + 6).min(u.len())]),
        None => format!("{} ASCII units", u.len()),
    }
}

fn check_utf8(sink: &Sink, b: &[u8], local: &mut [u64; 8]) {
    let std_r = std::str::from_utf8(b);
    let Some(l) = guarded(sink, "utf8", || fmt8(b), || LeanString::from_utf8(b)) else { return };
    match (&std_r, &l) {
        (Ok(s), Ok(x)) => {
            if x.as_str() != *s {
                sink.viol("utf8", fmt8(b), format!("from_utf8 text {:?} != {:?}", x.as_str(), s));
            }
            local[0] += 1;
        }
        (Err(_), Err(_)) => local[1] += 1,
        _ => sink.viol("utf8", fmt8(b), format!("from_utf8 accepts: {} but String::from_utf8 accepts: {}", l.is_ok(), std_r.is_ok())),
    }
    let Some(lossy) = guarded(sink, "utf8-lossy", || fmt8(b), || LeanString::from_utf8_lossy(b)) else { return };
    let std_lossy = String::from_utf8_lossy(b);
    if lossy.as_str() != std_lossy.as_ref() {
        sink.viol("utf8-lossy", fmt8(b), format!("from_utf8_lossy {:?} != {:?}", lossy.as_str(), std_lossy));
    }
    if lossy.len() > b.len() {
        local[2] += 1; // output outgrew the capacity guessed from the input length
    }
    if lossy.is_heap_allocated() {
        local[3] += 1;
    }
}

fn check_utf16(sink: &Sink, u: &[u16], local: &mut [u64; 8]) {
    let std_r = String::from_utf16(u);
    let Some(l) = guarded(sink, "utf16", || fmt16(u), || LeanString::from_utf16(u)) else { return };
    match (&std_r, &l) {
        (Ok(s), Ok(x)) => {
            if x.as_str() != s.as_str() {
                sink.viol("utf16", fmt16(u), format!("from_utf16 text {:?} != {:?}", x.as_str(), s));
            }
            local[4] += 1;
        }
        (Err(_), Err(_)) => local[5] += 1,
        _ => sink.viol("utf16", fmt16(u), format!("from_utf16 accepts: {} but String::from_utf16 accepts: {}", l.is_ok(), std_r.is_ok())),
    }
    let Some(lossy) = guarded(sink, "utf16-lossy", || format!("{} units: {:04x?}...", u.len(), &u[..u.len().min(12)]), || LeanString::from_utf16_lossy(u)) else { return };
    let std_lossy = String::from_utf16_lossy(u);
    if lossy.as_str() != std_lossy {
        sink.viol("utf16-lossy", fmt16(u), format!("from_utf16_lossy {:?} != {:?}", lossy.as_str(), std_lossy));
    }
    if lossy.is_heap_allocated() {
        local[6] += 1;
    }
}

fn enum_seqs<T: Copy + Sync>(sink: &Sink, nthreads: usize, alpha: &[T], max_len: usize, prefixes: &[Vec<T>], f: &(dyn Fn(&Sink, &[T], &mut [u64; 8]) + Sync)) -> u64 {
    let k = alpha.len() as u64;
    let mut total = 0u64;
    for len in 0..=max_len {
        let count = k.pow(len as u32);
        total += count * prefixes.len() as u64;
        par_ranges(nthreads, count, &|lo, hi| {
            let mut local = [0u64; 8];
            let mut buf: Vec<T> = Vec::with_capacity(64);
            for idx in lo..hi {
                for p in prefixes {
                    buf.clear();
                    buf.extend_from_slice(p);
                    let mut x = idx;
                    for _ in 0..len {
                        buf.push(alpha[(x % k) as usize]);
                        x /= k;
                    }
                    f(sink, &buf, &mut local);
                }
            }
            sink.evals.fetch_add((hi - lo) * prefixes.len() as u64, Relaxed);
            let names = ["utf8_valid", "utf8_invalid", "lossy_output_longer_than_input", "utf8_lossy_heap", "utf16_valid", "utf16_invalid", "utf16_lossy_heap", "_"];
            let mut m = BTreeMap::new();
            for i in 0..7 {
                if local[i] > 0 {
                    m.insert(format!("{}|len={}", names[i], len), local[i]);
                }
            }
            sink.merge_cells(m);
        });
    }
    total
}

pub fn engine_utf(a: &Args) {
    crate::install_shim(a);
    let seed = a.num("seed", 1);
    let mut r = Rng::new(seed);
    let sink = Sink::new("utf", 16, seed);
    let nthreads = threads(a);
    let min_len = a.num("min-alpha-len", 5) as usize;
    let ext_len = a.num("ext-alpha-len", 4) as usize;
    let u16_len = a.num("u16-len", 5) as usize;
    let pre_len = a.num("prefixed-len", 3) as usize;
    let none8: Vec<Vec<u8>> = vec![vec![]];
    let mut scope = Vec::new();
    let n1 = enum_seqs(&sink, nthreads, &ALPHA_MIN, min_len, &none8, &check_utf8);
    scope.push(format!("all {n1} byte sequences of length 0..={min_len} over the 16-symbol class alphabet"));
    let n2 = enum_seqs(&sink, nthreads, &ALPHA_EXT, ext_len, &none8, &check_utf8);
    scope.push(format!("all {n2} byte sequences of length 0..={ext_len} over the 27-symbol extended alphabet"));
    // embedded after valid prefixes that straddle the inline limit / the capacity guess
    let prefixes8: Vec<Vec<u8>> = vec![
        b"0123456789ab".to_vec(),
        "0123456789abc€".as_bytes()[..15].to_vec(),
        b"0123456789abcdef".to_vec(),
        "0123456789abcdé".as_bytes().to_vec(),
        // well-known signatures that a decoder might be tempted to treat specially
        b"\xEF\xBB\xBF".to_vec(),
        b"\xEF\xBB\xBFtext after a signature".to_vec(),
        b"\xFF\xFE".to_vec(),
    ];
    let prefixes8: Vec<Vec<u8>> = prefixes8.into_iter().filter(|p| std::str::from_utf8(p).is_ok() || true).collect();
    let n3 = enum_seqs(&sink, nthreads, &ALPHA_MIN, pre_len, &prefixes8, &check_utf8);
    scope.push(format!("{n3} sequences of length 0..={pre_len} embedded after 12/15/16/17-byte prefixes and after the signatures EF BB BF / FF FE"));
    let none16: Vec<Vec<u16>> = vec![vec![]];
    let n4 = enum_seqs(&sink, nthreads, &ALPHA_U16, u16_len, &none16, &check_utf16);
    scope.push(format!("all {n4} u16 sequences of length 0..={u16_len} over {{0,41,D7FF,D800,DBFF,DC00,DFFF,E000,FFFD,FFFF}}"));
    let prefixes16: Vec<Vec<u16>> = vec![
        "0123456789ab".encode_utf16().collect(),
        "0123456789abcde".encode_utf16().collect(),
        "0123456789abcdef".encode_utf16().collect(),
        "€€€€€".encode_utf16().collect(),
        vec![0xFEFF],
        vec![0xFFFE],
        vec![0xFEFF, 0x61, 0x62, 0x63, 0x64, 0x65, 0x66, 0x67, 0x68, 0x69, 0x6A, 0x6B, 0x6C, 0x6D, 0x6E],
    ];
    let n5 = enum_seqs(&sink, nthreads, &ALPHA_U16, pre_len.min(4), &prefixes16, &check_utf16);
    scope.push(format!("{n5} u16 sequences embedded after prefixes whose UTF-8 length is 12/15/16/15 bytes"));
    // position sweep: a char of every width (and an invalid unit) right after p bytes/units of
    // valid prefix, for every p up to `pos-max` (chunked encoders/decoders break at block edges)
    let pos_max = a.num("pos-max", 1100);
    par_ranges(nthreads, pos_max + 1, &|lo, hi| {
        let mut local = [0u64; 8];
        for p in lo..hi {
            for (pi, pch) in ['a', 'é', '€'].iter().enumerate() {
                let mut prefix = String::new();
                while (prefix.len() as u64) + (pch.len_utf8() as u64) <= p {
                    prefix.push(*pch);
                }
                while (prefix.len() as u64) < p {
                    prefix.push('b');
                }
                for tail in ["x", "é", "€", "𝄞", "\u{10ffff}"] {
                    let mut t = prefix.clone();
                    t.push_str(tail);
                    t.push_str("yz");
                    // valid, then the same with a broken unit right after the tail char
                    check_utf8(&sink, t.as_bytes(), &mut local);
                    let mut b = t.clone().into_bytes();
                    b.insert(prefix.len() + tail.len(), 0xE2);
                    check_utf8(&sink, &b, &mut local);
                    b.truncate(prefix.len() + tail.len() - 1);
                    check_utf8(&sink, &b, &mut local);
                    let mut u: Vec<u16> = t.encode_utf16().collect();
                    check_utf16(&sink, &u, &mut local);
                    let at = prefix.encode_utf16().count();
                    u.insert(at, 0xDC00);
                    check_utf16(&sink, &u, &mut local);
                    u.truncate(at + 2);
                    check_utf16(&sink, &u, &mut local);
                    let _ = pi;
                }
            }
        }
        sink.evals.fetch_add((hi - lo) * 3 * 5 * 6, Relaxed);
        let mut m = BTreeMap::new();
        m.insert("position_sweep_cases".to_string(), (hi - lo) * 3 * 5 * 6);
        sink.merge_cells(m);
    });
    scope.push(format!("position sweep: chars of width 1-4 (valid, followed by a broken unit, truncated) after every prefix length 0..={pos_max} of 1-, 2- and 3-byte prefix chars, UTF-8 and UTF-16"));
    // block edges: decoders that work in blocks (4 KiB ... 1 MiB) must not split, skip or mis-validate a
    // character that straddles a cut; ASCII filler, one character (or broken sequence) at every offset
    // from 5 before to 2 after each power of two, with and without a second block behind it
    let edge_max = a.num("edge-max", 1 << 20) as usize;
    let sizes: Vec<usize> = [4096usize, 8192, 16384, 32768, 65536, 131072, 262144, 1 << 20].into_iter().filter(|b| *b <= edge_max).collect();
    let n_edge = std::sync::atomic::AtomicU64::new(0);
    par_ranges(nthreads, sizes.len() as u64 * 8, &|lo, hi| {
        let mut local = [0u64; 8];
        for k in lo..hi {
            let bsize = sizes[(k / 8) as usize];
            let p = bsize - 5 + (k % 8) as usize;
            let tails: [&[u8]; 7] = ["é".as_bytes(), "€".as_bytes(), "𝄞".as_bytes(), &[0xF0, 0x9F, 0xA6], &[0x80], &[0xED, 0xA0, 0x80], &[0xF4, 0x90, 0x80, 0x80]];
            for tail in tails {
                for q in [2usize, bsize + 7] {
                    let mut b = vec![b'a'; p];
                    b.extend_from_slice(tail);
                    b.extend(std::iter::repeat_n(b'b', q));
                    check_utf8(&sink, &b, &mut local);
                    n_edge.fetch_add(1, Relaxed);
                }
            }
            let tails16: [&[u16]; 5] = [&[0x20AC], &[0xD834, 0xDD1E], &[0xD834], &[0xDD1E], &[0xDBFF, 0xDFFF]];
            for tail in tails16 {
                for q in [2usize, bsize + 7] {
                    let mut u = vec![0x61u16; p];
                    u.extend_from_slice(tail);
                    u.extend(std::iter::repeat_n(0x62u16, q));
                    check_utf16(&sink, &u, &mut local);
                    n_edge.fetch_add(1, Relaxed);
                }
            }
        }
        let mut m = BTreeMap::new();
        m.insert("block_edge_inputs".to_string(), (hi - lo) * (7 + 5) * 2);
        sink.merge_cells(m);
    });
    sink.evals.fetch_add(n_edge.load(Relaxed), Relaxed);
    if !sizes.is_empty() {
        scope.push(format!("block edges: a 2/3/4-byte char, a truncated 4-byte char, a stray continuation byte, an encoded surrogate and F4 90.. (UTF-16: BMP char, pair, lone lead, lone trail, last pair) at every offset from B-5 to B+2 for B in {sizes:?}, followed by 2 or B+7 more units"));
    }
    // long nearly-valid inputs
    let n_long = a.num("long", 100_000);
    let seed0 = r.next();
    par_ranges(nthreads, n_long, &|lo, hi| {
        let mut rr = Rng::new(seed0 ^ lo.wrapping_mul(0x9E37));
        let mut local = [0u64; 8];
        for _ in lo..hi {
            let l = rr.range(17, 300);
            let mut b = gen_text(&mut rr, l).into_bytes();
            for _ in 0..rr.below(4) {
                if b.is_empty() {
                    break;
                }
                let i = rr.below(b.len());
                match rr.below(5) {
                    0 => b.truncate(i),
                    1 => b[i] ^= 0x80,
                    2 => b.insert(i, *rr.pick(&ALPHA_EXT)),
                    3 => {
                        b.remove(i);
                    }
                    _ => b[i] = *rr.pick(&ALPHA_MIN),
                }
            }
            check_utf8(&sink, &b, &mut local);
            let mut u: Vec<u16> = String::from_utf8_lossy(&b).encode_utf16().collect();
            for _ in 0..rr.below(3) {
                if u.is_empty() {
                    break;
                }
                let i = rr.below(u.len());
                match rr.below(3) {
                    0 => u[i] = *rr.pick(&ALPHA_U16),
                    1 => u.insert(i, 0xD800 + rr.below(0x800) as u16),
                    _ => {
                        u.remove(i);
                    }
                }
            }
            check_utf16(&sink, &u, &mut local);
        }
        sink.evals.fetch_add(2 * (hi - lo), Relaxed);
        let mut m = BTreeMap::new();
        m.insert("long_mutated_inputs".to_string(), 2 * (hi - lo));
        m.insert("long|lossy_output_longer_than_input".to_string(), local[2]);
        sink.merge_cells(m);
    });
    sink.sample(format!("{:02x?} -> lossy {:?}", [0x41u8, 0xE0, 0x80, 0x41], LeanString::from_utf8_lossy(&[0x41, 0xE0, 0x80, 0x41]).as_str()));
    sink.sample(format!("{:02x?} -> from_utf8 ok={}", [0xF4u8, 0x90, 0x80, 0x80], LeanString::from_utf8(&[0xF4, 0x90, 0x80, 0x80]).is_ok()));
    sink.sample(format!("{:04x?} -> from_utf16 ok={}, lossy {:?}", [0xD800u16, 0x41], LeanString::from_utf16(&[0xD800, 0x41]).is_ok(), LeanString::from_utf16_lossy(&[0xD800, 0x41]).as_str()));
    sink.finish(a, Some(scope.join("; ")), vec![]);
}

// ---------------------------------------------------------------------------------------------
// C19

#[cfg(not(feature = "extra"))]
pub fn engine_serde(_a: &Args) {
    eprintln!("engine `serde` needs the harness feature `extra`");
    std::process::exit(2);
}

#[cfg(feature = "extra")]
pub fn engine_serde(a: &Args) {
    use arbitrary::{Arbitrary, Unstructured};
    use serde::Deserialize;
    use serde::de::IntoDeserializer;
    use serde::de::value::{BorrowedBytesDeserializer, BorrowedStrDeserializer, BytesDeserializer, Error as VErr, StrDeserializer, StringDeserializer};
    crate::install_shim(a);
    let seed = a.num("seed", 1);
    let mut r = Rng::new(seed);
    let sink = Sink::new("serde", 19, seed);
    let n = a.num("strings", 20000);
    let escapes = ["\"", "\\", "\n", "\u{0}", "\u{1f}", "\u{7f}", "é", "€", "𝄞", "\u{2028}", "/", "\u{feff}"];
    for i in 0..n {
        let len = match r.below(6) {
            0 => 16,
            1 => 15,
            2 => 17,
            _ => gen_len(&mut r).min(200),
        };
        let mut s = gen_text(&mut r, len);
        if i % 3 == 0 {
            for _ in 0..r.below(5) {
                let at = s.floor_char_boundary(r.below(s.len() + 1));
                s.insert_str(at, *r.pick(&escapes[..]));
            }
        }
        let l = LeanString::from(s.as_str());
        // Serialize: JSON text and the exact sequence of Serializer calls
        let js = serde_json::to_string(&s).unwrap();
        let jl = serde_json::to_string(&l).unwrap();
        if js != jl {
            sink.viol("serde-serialize", format!("{s:?}"), format!("serde_json {:?} != {:?}", jl, js));
        }
        let rs = rec::record(&s);
        let rl = rec::record(&l);
        if rs != rl {
            sink.viol("serde-serialize", format!("{s:?}"), format!("Serializer calls {:?} != {:?}", rl, rs));
        }
        sink.cell("serialize_json+recording", 2);
        // Deserialize from every str-ish deserializer
        let d1: Result<LeanString, VErr> = LeanString::deserialize(StrDeserializer::new(&s));
        let d2: Result<LeanString, VErr> = LeanString::deserialize(BorrowedStrDeserializer::new(&s));
        let d3: Result<LeanString, VErr> = LeanString::deserialize(StringDeserializer::new(s.clone()));
        let d4: Result<LeanString, VErr> = LeanString::deserialize(s.as_str().into_deserializer());
        let d5: Result<LeanString, serde_json::Error> = serde_json::from_str(&js);
        let d6: Result<LeanString, serde_json::Error> = serde_json::from_slice(js.as_bytes());
        let d7: Result<LeanString, serde_json::Error> = serde_json::from_reader(js.as_bytes());
        for (name, got) in [("StrDeserializer", d1.ok()), ("BorrowedStrDeserializer", d2.ok()), ("StringDeserializer", d3.ok()), ("into_deserializer", d4.ok()), ("serde_json::from_str", d5.ok()), ("serde_json::from_slice", d6.ok()), ("serde_json::from_reader", d7.ok())] {
            match got {
                Some(x) if x.as_str() == s => {}
                other => sink.viol("serde-deserialize", format!("{name} {s:?}"), format!("got {:?}", other.map(|x| x.to_string()))),
            }
            sink.cell(&format!("de:{name}"), 1);
            sink.cell(&format!("de:{name}|len={}", match s.len() { 0 => "0", 1..=15 => "1-15", 16 => "16", 17..=64 => "17-64", _ => "65+" }), 1);
        }
        // \u escapes incl. surrogate pairs, written by hand
        if i % 16 == 0 {
            let mut esc = String::from("\"");
            for u in s.encode_utf16() {
                esc.push_str(&format!("\\u{:04x}", u));
            }
            esc.push('"');
            let a1: Result<LeanString, _> = serde_json::from_str(&esc);
            let a2: Result<String, _> = serde_json::from_str(&esc);
            if a1.as_ref().ok().map(|x| x.as_str()) != a2.as_ref().ok().map(|x| x.as_str()) {
                sink.viol("serde-deserialize", format!("escaped {esc}"), "differs from String".into());
            }
            sink.cell("de:json-unicode-escapes", 1);
        }
        sink.evals.fetch_add(10, Relaxed);
    }
    // bytes visitors: every sequence over the class alphabet + long mutated inputs
    let max_len = a.num("bytes-len", 4) as usize;
    let k = ALPHA_MIN.len() as u64;
    let mut nbytes = 0u64;
    let mut bcells = [0u64; 8];
    let mut check_bytes = |b: &[u8]| {
        let want: Result<String, VErr> = String::deserialize(BytesDeserializer::new(b));
        let got: Result<LeanString, VErr> = LeanString::deserialize(BytesDeserializer::new(b));
        let wantb: Result<String, VErr> = String::deserialize(BorrowedBytesDeserializer::new(b));
        let gotb: Result<LeanString, VErr> = LeanString::deserialize(BorrowedBytesDeserializer::new(b));
        let valid = std::str::from_utf8(b).is_ok();
        for (name, w, g) in [("BytesDeserializer", &want, &got), ("BorrowedBytesDeserializer", &wantb, &gotb)] {
            let same = match (w, g) {
                (Ok(x), Ok(y)) => x.as_str() == y.as_str(),
                (Err(_), Err(_)) => true,
                _ => false,
            };
            if !same || g.is_ok() != valid {
                sink.viol("serde-deserialize", format!("{name} {b:02x?}"), format!("LeanString: {:?}, String: {:?}, valid utf-8: {}", g.as_ref().map(|x| x.to_string()).map_err(|e| e.to_string()), w.as_ref().map_err(|e| e.to_string()), valid));
            }
        }
        nbytes += 2;
        bcells[(valid as usize) * 4 + match b.len() { 0..=3 => 0, 4..=16 => 1, 17..=32 => 2, _ => 3 }] += 2;
    };
    for len in 0..=max_len {
        for idx in 0..k.pow(len as u32) {
            let mut b = Vec::with_capacity(len);
            let mut x = idx;
            for _ in 0..len {
                b.push(ALPHA_MIN[(x % k) as usize]);
                x /= k;
            }
            check_bytes(&b);
            if len >= 2 {
                let mut p = b"0123456789abcde".to_vec();
                p.extend_from_slice(&b);
                check_bytes(&p);
            }
        }
    }
    for _ in 0..a.num("long", 20000) {
        let l = r.range(10, 120);
        let mut b = gen_text(&mut r, l).into_bytes();
        if r.chance(2, 3) && !b.is_empty() {
            let i = r.below(b.len());
            b[i] = *r.pick(&ALPHA_EXT);
        }
        check_bytes(&b);
    }
    sink.cell("de:bytes-visitors", nbytes);
    for (i, n) in bcells.iter().enumerate() {
        if *n > 0 {
            sink.cell(&format!("de:bytes|{}|len={}", if i / 4 == 1 { "valid-utf8" } else { "invalid-utf8" }, ["0-3", "4-16", "17-32", "33+"][i % 4]), *n);
        }
    }
    sink.evals.fetch_add(nbytes, Relaxed);
    // arbitrary
    let n_arb = a.num("arbitrary", 100000);
    let mut acells = [0u64; 4];
    for i in 0..n_arb {
        let l = r.below(48);
        let raw: Vec<u8> = if i % 2 == 0 {
            (0..l)
                .map(|_| match r.below(4) {
                    0 => *r.pick(&ALPHA_EXT),
                    1 => r.next() as u8,
                    _ => b'a' + r.below(26) as u8,
                })
                .collect()
        } else {
            // valid text of mixed widths (incl. a genuine U+FFFD) followed by 1-2 length/control bytes
            let mut b = gen_text(&mut r, l).into_bytes();
            if i % 4 == 1 {
                let at = r.below(b.len() + 1);
                let cut = String::from_utf8_lossy(&b[..at]).len().min(at);
                let at = (0..=cut).rev().find(|&k| std::str::from_utf8(&b[..k]).is_ok()).unwrap_or(0);
                for (k, x) in "\u{fffd}".bytes().enumerate() {
                    b.insert(at + k, x);
                }
            }
            for _ in 0..r.range(1, 2) {
                b.push(match r.below(3) {
                    0 => 0xFF,
                    1 => r.below(64) as u8,
                    _ => r.next() as u8,
                });
            }
            b
        };
        let mut u1 = Unstructured::new(&raw);
        let mut u2 = Unstructured::new(&raw);
        let a1 = LeanString::arbitrary(&mut u1);
        let a2 = <&str>::arbitrary(&mut u2);
        let same = match (&a1, &a2) {
            (Ok(x), Ok(y)) => x.as_str() == *y,
            (Err(_), Err(_)) => true,
            _ => false,
        };
        acells[(a2.is_ok() as usize) * 2 + (u2.len() == 0) as usize] += 1;
        if !same || u1.len() != u2.len() {
            sink.viol("arbitrary", format!("{raw:02x?}"), format!("arbitrary: {:?} vs {:?}; bytes left {} vs {}", a1.as_ref().map(|x| x.to_string()).ok(), a2.ok(), u1.len(), u2.len()));
        }
        let t1 = LeanString::arbitrary_take_rest(Unstructured::new(&raw));
        let t2 = <&str>::arbitrary_take_rest(Unstructured::new(&raw));
        let same = match (&t1, &t2) {
            (Ok(x), Ok(y)) => x.as_str() == *y,
            (Err(_), Err(_)) => true,
            _ => false,
        };
        if !same {
            sink.viol("arbitrary", format!("{raw:02x?}"), "arbitrary_take_rest differs from <&str>".into());
        }
        if i < 8 && LeanString::size_hint(i as usize) != <&str>::size_hint(i as usize) {
            sink.viol("arbitrary", format!("depth {i}"), "size_hint differs".into());
        }
        sink.evals.fetch_add(2, Relaxed);
    }
    sink.cell("arbitrary+take_rest", 2 * n_arb);
    for (i, n) in acells.iter().enumerate() {
        if *n > 0 {
            sink.cell(&format!("arbitrary|{}|{}", if i / 2 == 1 { "ok" } else { "err" }, if i % 2 == 1 { "consumed-everything" } else { "bytes-left" }), *n);
        }
    }
    sink.sample("\"a\\\"é€𝄞\\n\" -> serde_json text and recorded Serializer calls equal to String's".into());
    sink.sample("BytesDeserializer([0x41,0xE0,0x80]) -> Err for both String and LeanString".into());
    sink.sample("Unstructured([..]) -> LeanString::arbitrary == <&str>::arbitrary, same bytes left".into());
    sink.finish(a, None, vec![]);
}

#[cfg(feature = "extra")]
mod rec {
    //! A Serializer that records which methods are called with which payload.
    use serde::ser::{self, Impossible, Serialize};
    use std::fmt;

    #[derive(Debug)]
    pub struct E(String);
    impl fmt::Display for E {
        fn fmt(&self, f: &mut fmt::Formatter<'_>) -> fmt::Result {
            f.write_str(&self.0)
        }
    }
    impl std::error::Error for E {}
    impl ser::Error for E {
        fn custom<T: fmt::Display>(msg: T) -> Self {
            E(msg.to_string())
        }
    }

    pub struct Rec<'a>(pub &'a mut Vec<String>, pub bool);

    /// records the Serializer calls made for `v`, once as a human-readable and once as a
    /// compact (non-human-readable) format
    pub fn record<T: Serialize + ?Sized>(v: &T) -> Vec<String> {
        let mut calls = Vec::new();
        let _ = v.serialize(Rec(&mut calls, true));
        calls.push("|compact:".into());
        let _ = v.serialize(Rec(&mut calls, false));
        calls
    }

    macro_rules! prim {
        ($($name:ident: $t:ty),*) => {$(
            fn $name(self, v: $t) -> Result<(), E> { self.0.push(format!("{}({:?})", stringify!($name), v)); Ok(()) }
        )*};
    }

    impl<'a> ser::Serializer for Rec<'a> {
        type Ok = ();
        type Error = E;
        type SerializeSeq = Impossible<(), E>;
        type SerializeTuple = Impossible<(), E>;
        type SerializeTupleStruct = Impossible<(), E>;
        type SerializeTupleVariant = Impossible<(), E>;
        type SerializeMap = Impossible<(), E>;
        type SerializeStruct = Impossible<(), E>;
        type SerializeStructVariant = Impossible<(), E>;
        fn is_human_readable(&self) -> bool {
            self.1
        }
        prim!(serialize_bool: bool, serialize_i8: i8, serialize_i16: i16, serialize_i32: i32, serialize_i64: i64,
              serialize_u8: u8, serialize_u16: u16, serialize_u32: u32, serialize_u64: u64,
              serialize_f32: f32, serialize_f64: f64, serialize_char: char, serialize_str: &str, serialize_bytes: &[u8]);
        fn serialize_none(self) -> Result<(), E> {
            self.0.push("none".into());
            Ok(())
        }
        fn serialize_some<T: Serialize + ?Sized>(self, v: &T) -> Result<(), E> {
            self.0.push("some".into());
            v.serialize(self)
        }
        fn serialize_unit(self) -> Result<(), E> {
            self.0.push("unit".into());
            Ok(())
        }
        fn serialize_unit_struct(self, n: &'static str) -> Result<(), E> {
            self.0.push(format!("unit_struct({n})"));
            Ok(())
        }
        fn serialize_unit_variant(self, n: &'static str, i: u32, v: &'static str) -> Result<(), E> {
            self.0.push(format!("unit_variant({n},{i},{v})"));
            Ok(())
        }
        fn serialize_newtype_struct<T: Serialize + ?Sized>(self, n: &'static str, v: &T) -> Result<(), E> {
            self.0.push(format!("newtype_struct({n})"));
            v.serialize(self)
        }
        fn serialize_newtype_variant<T: Serialize + ?Sized>(self, n: &'static str, i: u32, var: &'static str, v: &T) -> Result<(), E> {
            self.0.push(format!("newtype_variant({n},{i},{var})"));
            v.serialize(self)
        }
        fn serialize_seq(self, l: Option<usize>) -> Result<Self::SerializeSeq, E> {
            self.0.push(format!("seq({l:?})"));
            Err(E("seq".into()))
        }
        fn serialize_tuple(self, l: usize) -> Result<Self::SerializeTuple, E> {
            self.0.push(format!("tuple({l})"));
            Err(E("tuple".into()))
        }
        fn serialize_tuple_struct(self, n: &'static str, l: usize) -> Result<Self::SerializeTupleStruct, E> {
            self.0.push(format!("tuple_struct({n},{l})"));
            Err(E("tuple_struct".into()))
        }
        fn serialize_tuple_variant(self, n: &'static str, i: u32, v: &'static str, l: usize) -> Result<Self::SerializeTupleVariant, E> {
            self.0.push(format!("tuple_variant({n},{i},{v},{l})"));
            Err(E("tuple_variant".into()))
        }
        fn serialize_map(self, l: Option<usize>) -> Result<Self::SerializeMap, E> {
            self.0.push(format!("map({l:?})"));
            Err(E("map".into()))
        }
        fn serialize_struct(self, n: &'static str, l: usize) -> Result<Self::SerializeStruct, E> {
            self.0.push(format!("struct({n},{l})"));
            Err(E("struct".into()))
        }
        fn serialize_struct_variant(self, n: &'static str, i: u32, v: &'static str, l: usize) -> Result<Self::SerializeStructVariant, E> {
            self.0.push(format!("struct_variant({n},{i},{v},{l})"));
            Err(E("struct_variant".into()))
        }
    }
}
