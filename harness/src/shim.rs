//! Allocator shim installed behind lean_string's `verif-hooks` allocator indirection.
//!
//! Modes:
//!  * `Count`  – lock-free Relaxed counters only (used by the concurrent engine under Miri so the
//!               monitor adds no happens-before edge);
//!  * `Track`  – forwards to the real allocator (so Miri / ASan / memcheck see the true events) and
//!               keeps a table of live blocks keyed by address (plain integers, nothing kept alive);
//!  * `Shadow` – guard zones, 0xCD fill, always-moving realloc, poison-on-free + quarantine.
//!
//! Only the crate's own heap-buffer requests arrive here.

use std::alloc::Layout;
use std::collections::{BTreeMap, VecDeque};
use std::sync::Mutex;
use std::sync::atomic::{AtomicU8, AtomicU64, AtomicUsize, Ordering::Relaxed};

use lean_string::verif_hooks::{AllocFns, set_alloc};

#[derive(Clone, Copy, PartialEq, Eq, Debug)]
pub enum Mode {
    Off = 0,
    Count = 1,
    Track = 2,
    Shadow = 3,
}

const GUARD: usize = 64;
const PRE: u8 = 0xA5;
const POST: u8 = 0x5A;
const FRESH: u8 = 0xCD;
const POISON: u8 = 0xDD;
const QUARANTINE_MAX: usize = 4 << 20;
const QUARANTINE_BLOCK_MAX: usize = 1 << 20;

static MODE: AtomicU8 = AtomicU8::new(0);
pub static N_ALLOC: AtomicU64 = AtomicU64::new(0);
pub static N_REALLOC: AtomicU64 = AtomicU64::new(0);
pub static N_DEALLOC: AtomicU64 = AtomicU64::new(0);
pub static BYTES_REQ: AtomicU64 = AtomicU64::new(0);
/// index (1-based) of alloc+realloc requests since `arm()`
static REQ_IDX: AtomicU64 = AtomicU64::new(0);
static FAIL_A: AtomicU64 = AtomicU64::new(0);
static FAIL_B: AtomicU64 = AtomicU64::new(0);
static N_FAILED: AtomicU64 = AtomicU64::new(0);
static N_REFUSED: AtomicU64 = AtomicU64::new(0);
static REFUSE_OVER: AtomicUsize = AtomicUsize::new(usize::MAX);

#[derive(Clone, Copy, Debug, PartialEq, Eq)]
pub enum ReqKind {
    Alloc,
    Realloc,
    Dealloc,
}

#[derive(Clone, Copy, Debug)]
pub struct Req {
    pub kind: ReqKind,
    pub addr: usize,
    pub size: usize,
    pub new_size: usize,
    pub ok: bool,
}

#[derive(Clone, Copy)]
struct Block {
    size: usize,
    align: usize,
}

struct QBlock {
    user: usize,
    size: usize,
    align: usize,
}

#[derive(Default)]
struct State {
    live: BTreeMap<usize, Block>,
    quarantine: VecDeque<QBlock>,
    qbytes: usize,
    errors: Vec<String>,
    log: Vec<Req>,
    log_on: bool,
}

static STATE: Mutex<Option<State>> = Mutex::new(None);

fn with<R>(f: impl FnOnce(&mut State) -> R) -> R {
    let mut g = match STATE.lock() {
        Ok(g) => g,
        Err(p) => p.into_inner(),
    };
    if g.is_none() {
        *g = Some(State::default());
    }
    f(g.as_mut().unwrap())
}

static FNS: AllocFns = AllocFns { alloc: h_alloc, realloc: h_realloc, dealloc: h_dealloc };

pub fn install(mode: Mode) {
    MODE.store(mode as u8, Relaxed);
    if mode == Mode::Off {
        set_alloc(None);
    } else {
        with(|s| s.log_on = true);
        set_alloc(Some(&FNS));
    }
}

pub fn mode() -> Mode {
    match MODE.load(Relaxed) {
        1 => Mode::Count,
        2 => Mode::Track,
        3 => Mode::Shadow,
        _ => Mode::Off,
    }
}

pub fn set_refuse_over(n: usize) {
    REFUSE_OVER.store(n, Relaxed);
}
pub fn refuse_over() -> usize {
    REFUSE_OVER.load(Relaxed)
}

/// Arms the fault plan: the `a`-th and `b`-th allocation/reallocation requests from now on fail
/// (0 = none). Resets the request index.
pub fn arm(a: u64, b: u64) {
    REQ_IDX.store(0, Relaxed);
    FAIL_A.store(a, Relaxed);
    FAIL_B.store(b, Relaxed);
}
pub fn disarm() {
    FAIL_A.store(0, Relaxed);
    FAIL_B.store(0, Relaxed);
}
pub fn req_index() -> u64 {
    REQ_IDX.load(Relaxed)
}
pub fn failed_count() -> u64 {
    N_FAILED.load(Relaxed)
}
pub fn refused_count() -> u64 {
    N_REFUSED.load(Relaxed)
}
pub fn reset_fail_counters() {
    N_FAILED.store(0, Relaxed);
    N_REFUSED.store(0, Relaxed);
}

#[derive(Clone, Copy, Default, Debug, PartialEq, Eq)]
pub struct Counts {
    pub alloc: u64,
    pub realloc: u64,
    pub dealloc: u64,
    pub bytes: u64,
}
impl Counts {
    pub fn total(&self) -> u64 {
        self.alloc + self.realloc + self.dealloc
    }
}
pub fn counts() -> Counts {
    Counts {
        alloc: N_ALLOC.load(Relaxed),
        realloc: N_REALLOC.load(Relaxed),
        dealloc: N_DEALLOC.load(Relaxed),
        bytes: BYTES_REQ.load(Relaxed),
    }
}
pub fn delta(a: Counts, b: Counts) -> Counts {
    Counts {
        alloc: b.alloc.wrapping_sub(a.alloc),
        realloc: b.realloc.wrapping_sub(a.realloc),
        dealloc: b.dealloc.wrapping_sub(a.dealloc),
        bytes: b.bytes.wrapping_sub(a.bytes),
    }
}

pub fn take_log() -> Vec<Req> {
    with(|s| std::mem::take(&mut s.log))
}
pub fn clear_log() {
    with(|s| s.log.clear());
}
pub fn take_errors() -> Vec<String> {
    with(|s| std::mem::take(&mut s.errors))
}
pub fn live_count() -> usize {
    with(|s| s.live.len())
}
pub fn live_snapshot() -> Vec<(usize, usize)> {
    with(|s| s.live.iter().map(|(a, b)| (*a, b.size)).collect())
}
/// size of the live block starting at `addr`, if any
pub fn block_size(addr: usize) -> Option<usize> {
    with(|s| s.live.get(&addr).map(|b| b.size))
}

fn should_fail(size: usize) -> bool {
    let idx = REQ_IDX.fetch_add(1, Relaxed) + 1;
    if size > REFUSE_OVER.load(Relaxed) {
        N_REFUSED.fetch_add(1, Relaxed);
        return true;
    }
    let a = FAIL_A.load(Relaxed);
    let b = FAIL_B.load(Relaxed);
    if (a != 0 && idx == a) || (b != 0 && idx == b) {
        N_FAILED.fetch_add(1, Relaxed);
        return true;
    }
    false
}

unsafe fn fill(p: *mut u8, v: u8, n: usize) {
    unsafe { std::ptr::write_bytes(p, v, n) }
}

fn check_pattern(p: usize, v: u8, n: usize) -> Option<usize> {
    let s = unsafe { std::slice::from_raw_parts(p as *const u8, n) };
    s.iter().position(|&b| b != v)
}

unsafe fn shadow_alloc(s: &mut State, size: usize, align: usize) -> *mut u8 {
    let real_layout = match Layout::from_size_align(size + 2 * GUARD, align.max(8)) {
        Ok(l) => l,
        Err(_) => return std::ptr::null_mut(),
    };
    let real = unsafe { std::alloc::alloc(real_layout) };
    if real.is_null() {
        return real;
    }
    unsafe {
        fill(real, PRE, GUARD);
        if size <= QUARANTINE_BLOCK_MAX {
            fill(real.add(GUARD), FRESH, size);
        }
        fill(real.add(GUARD + size), POST, GUARD);
    }
    let user = unsafe { real.add(GUARD) };
    s.live.insert(user as usize, Block { size, align });
    user
}

fn check_guards(s: &mut State, user: usize, size: usize, what: &str) {
    if let Some(off) = check_pattern(user - GUARD, PRE, GUARD) {
        s.errors.push(format!(
            "guard damaged: write {} bytes BEFORE block of size {} ({})",
            GUARD - off,
            size,
            what
        ));
    }
    if let Some(off) = check_pattern(user + size, POST, GUARD) {
        s.errors.push(format!(
            "guard damaged: write at offset +{} AFTER end of block of size {} ({})",
            off, size, what
        ));
    }
}

unsafe fn real_free(q: &QBlock) {
    let real_layout = Layout::from_size_align(q.size + 2 * GUARD, q.align.max(8)).unwrap();
    unsafe { std::alloc::dealloc((q.user - GUARD) as *mut u8, real_layout) };
}

fn evict(s: &mut State, q: QBlock) {
    if q.size > QUARANTINE_BLOCK_MAX {
        // huge blocks are neither filled nor poisoned (cost); only their guards are checked
    } else if let Some(off) = check_pattern(q.user, POISON, q.size) {
        s.errors.push(format!(
            "write-after-free: poison damaged at offset {} of freed block of size {}",
            off, q.size
        ));
    }
    check_guards(s, q.user, q.size, "freed block");
    unsafe { real_free(&q) };
}

unsafe fn shadow_free(s: &mut State, user: usize, b: Block) {
    check_guards(s, user, b.size, "at dealloc");
    let q = QBlock { user, size: b.size, align: b.align };
    if b.size > QUARANTINE_BLOCK_MAX {
        unsafe { real_free(&q) };
        return;
    }
    unsafe { fill(user as *mut u8, POISON, b.size) };
    s.qbytes += b.size + 2 * GUARD;
    s.quarantine.push_back(q);
    while s.qbytes > QUARANTINE_MAX {
        let q = s.quarantine.pop_front().unwrap();
        s.qbytes -= q.size + 2 * GUARD;
        evict(s, q);
    }
}

fn bad_free_reason(s: &State, addr: usize) -> String {
    if s.quarantine.iter().any(|q| q.user == addr) {
        "double free (block already released)".into()
    } else {
        "free/realloc of a pointer that is not a live block".into()
    }
}

unsafe fn h_alloc(layout: Layout) -> *mut u8 {
    let _shim = crate::galloc::ShimGuard::enter();
    N_ALLOC.fetch_add(1, Relaxed);
    BYTES_REQ.fetch_add(layout.size() as u64, Relaxed);
    let fail = should_fail(layout.size());
    match mode() {
        Mode::Count | Mode::Off => {
            if fail {
                return std::ptr::null_mut();
            }
            unsafe { std::alloc::alloc(layout) }
        }
        Mode::Track => with(|s| {
            let p = if fail { std::ptr::null_mut() } else { unsafe { std::alloc::alloc(layout) } };
            if !p.is_null() {
                s.live.insert(p as usize, Block { size: layout.size(), align: layout.align() });
            }
            if s.log_on {
                s.log.push(Req {
                    kind: ReqKind::Alloc,
                    addr: p as usize,
                    size: layout.size(),
                    new_size: 0,
                    ok: !p.is_null(),
                });
            }
            p
        }),
        Mode::Shadow => with(|s| {
            let p = if fail {
                std::ptr::null_mut()
            } else {
                unsafe { shadow_alloc(s, layout.size(), layout.align()) }
            };
            if s.log_on {
                s.log.push(Req {
                    kind: ReqKind::Alloc,
                    addr: p as usize,
                    size: layout.size(),
                    new_size: 0,
                    ok: !p.is_null(),
                });
            }
            p
        }),
    }
}

unsafe fn h_realloc(ptr: *mut u8, layout: Layout, new_size: usize) -> *mut u8 {
    let _shim = crate::galloc::ShimGuard::enter();
    N_REALLOC.fetch_add(1, Relaxed);
    BYTES_REQ.fetch_add(new_size as u64, Relaxed);
    let fail = should_fail(new_size);
    match mode() {
        Mode::Count | Mode::Off => {
            if fail {
                return std::ptr::null_mut();
            }
            unsafe { std::alloc::realloc(ptr, layout, new_size) }
        }
        Mode::Track => with(|s| {
            let addr = ptr as usize;
            let known = s.live.get(&addr).copied();
            let mut p = std::ptr::null_mut();
            match known {
                None => {
                    s.errors.push(format!("realloc: {}", bad_free_reason(s, addr)));
                }
                Some(b) => {
                    if b.size != layout.size() || b.align != layout.align() {
                        s.errors.push(format!(
                            "realloc with layout (size {}, align {}) but block was allocated with (size {}, align {})",
                            layout.size(), layout.align(), b.size, b.align
                        ));
                    }
                    if !fail {
                        p = unsafe { std::alloc::realloc(ptr, layout, new_size) };
                        if !p.is_null() {
                            s.live.remove(&addr);
                            s.live.insert(p as usize, Block { size: new_size, align: layout.align() });
                        }
                    }
                }
            }
            if s.log_on {
                s.log.push(Req {
                    kind: ReqKind::Realloc,
                    addr,
                    size: layout.size(),
                    new_size,
                    ok: !p.is_null(),
                });
            }
            p
        }),
        Mode::Shadow => with(|s| {
            let addr = ptr as usize;
            let known = s.live.get(&addr).copied();
            let mut p = std::ptr::null_mut();
            match known {
                None => {
                    s.errors.push(format!("realloc: {}", bad_free_reason(s, addr)));
                }
                Some(b) => {
                    if b.size != layout.size() || b.align != layout.align() {
                        s.errors.push(format!(
                            "realloc with layout (size {}, align {}) but block was allocated with (size {}, align {})",
                            layout.size(), layout.align(), b.size, b.align
                        ));
                    }
                    if !fail {
                        p = unsafe { shadow_alloc(s, new_size, b.align) };
                        if !p.is_null() {
                            unsafe {
                                std::ptr::copy_nonoverlapping(ptr, p, b.size.min(new_size));
                            }
                            s.live.remove(&addr);
                            unsafe { shadow_free(s, addr, b) };
                        }
                    }
                }
            }
            if s.log_on {
                s.log.push(Req {
                    kind: ReqKind::Realloc,
                    addr,
                    size: layout.size(),
                    new_size,
                    ok: !p.is_null(),
                });
            }
            p
        }),
    }
}

unsafe fn h_dealloc(ptr: *mut u8, layout: Layout) {
    let _shim = crate::galloc::ShimGuard::enter();
    N_DEALLOC.fetch_add(1, Relaxed);
    match mode() {
        Mode::Count | Mode::Off => unsafe { std::alloc::dealloc(ptr, layout) },
        Mode::Track => with(|s| {
            let addr = ptr as usize;
            match s.live.remove(&addr) {
                None => {
                    s.errors.push(format!("dealloc: {}", bad_free_reason(s, addr)));
                    // not forwarded: the report above is the verdict
                }
                Some(b) => {
                    if b.size != layout.size() || b.align != layout.align() {
                        s.errors.push(format!(
                            "dealloc with layout (size {}, align {}) but block was allocated with (size {}, align {})",
                            layout.size(), layout.align(), b.size, b.align
                        ));
                        let l = Layout::from_size_align(b.size, b.align).unwrap();
                        unsafe { std::alloc::dealloc(ptr, l) };
                    } else {
                        unsafe { std::alloc::dealloc(ptr, layout) };
                    }
                }
            }
            if s.log_on {
                s.log.push(Req {
                    kind: ReqKind::Dealloc,
                    addr,
                    size: layout.size(),
                    new_size: 0,
                    ok: true,
                });
            }
        }),
        Mode::Shadow => with(|s| {
            let addr = ptr as usize;
            match s.live.remove(&addr) {
                None => {
                    s.errors.push(format!("dealloc: {}", bad_free_reason(s, addr)));
                }
                Some(b) => {
                    if b.size != layout.size() || b.align != layout.align() {
                        s.errors.push(format!(
                            "dealloc with layout (size {}, align {}) but block was allocated with (size {}, align {})",
                            layout.size(), layout.align(), b.size, b.align
                        ));
                    }
                    unsafe { shadow_free(s, addr, b) };
                }
            }
            if s.log_on {
                s.log.push(Req {
                    kind: ReqKind::Dealloc,
                    addr,
                    size: layout.size(),
                    new_size: 0,
                    ok: true,
                });
            }
        }),
    }
}

/// Quiescent-point check: guard zones of every live block (Shadow only).
pub fn check_live_guards() {
    if mode() != Mode::Shadow {
        return;
    }
    with(|s| {
        let blocks: Vec<(usize, usize)> = s.live.iter().map(|(a, b)| (*a, b.size)).collect();
        for (a, sz) in blocks {
            check_guards(s, a, sz, "live block");
        }
    })
}

/// End-of-history check: verifies poison of all quarantined blocks and releases them.
pub fn drain_quarantine() {
    if mode() != Mode::Shadow {
        return;
    }
    with(|s| {
        while let Some(q) = s.quarantine.pop_front() {
            s.qbytes -= q.size + 2 * GUARD;
            evict(s, q);
        }
    })
}

/// Forget live blocks (after a violation, to let the next history start clean). Leaks them.
pub fn forget_live() {
    with(|s| {
        s.live.clear();
    })
}
