//! Sequential history explorer: drives the real crate and a `String` model through generated
//! histories and runs every monitor over the whole pool after every step.

use crate::cmpmon;
use crate::genops::{Gen, Profile, Step};
use crate::ops::*;
use crate::shim::{self, Mode, Req, ReqKind};
use crate::util::*;
use lean_string::LeanString;
use std::collections::BTreeMap;

pub const NPROPS: usize = 21;

#[derive(Clone, Debug)]
pub struct Viol {
    pub prop: usize,
    pub monitor: &'static str,
    pub msg: String,
}

#[derive(Default)]
pub struct PropCov {
    /// number of times a monitor deciding this property was evaluated with its precondition met
    pub evals: u64,
    pub sigs: SigSet,
    pub samples: Vec<String>,
}

#[derive(Default)]
pub struct Cov {
    pub steps: u64,
    pub histories: u64,
    pub props: Vec<PropCov>,
    pub matrix: BTreeMap<String, u64>,
    pub matrix_ix: Vec<(u64, String, u64)>,
    pub monitors: BTreeMap<&'static str, (u64, u64)>,
    pub counters: BTreeMap<&'static str, u64>,
    pub digest: u64,
}

impl Cov {
    pub fn new() -> Cov {
        let mut c = Cov::default();
        for _ in 0..NPROPS {
            c.props.push(PropCov::default());
        }
        c
    }
    pub fn hit(&mut self, prop: usize, sig: u64, sample: impl FnOnce() -> String) {
        let p = &mut self.props[prop];
        p.evals += 1;
        if p.sigs.insert(sig) && p.samples.len() < 6 {
            p.samples.push(sample());
        }
    }
    pub fn mon(&mut self, name: &'static str, precond: bool) {
        let e = self.monitors.entry(name).or_insert((0, 0));
        e.0 += 1;
        if precond {
            e.1 += 1;
        }
    }
    pub fn count(&mut self, name: &'static str, n: u64) {
        *self.counters.entry(name).or_insert(0) += n;
    }
}

#[derive(Clone, Copy, Debug, PartialEq, Eq)]
pub struct Snap {
    pub present: bool,
    pub len: usize,
    pub ptr: usize,
    pub cap: usize,
    pub kind: Kind,
    pub raw: [usize; 2],
    pub rc: Option<usize>,
}

impl Snap {
    fn absent() -> Snap {
        Snap { present: false, len: 0, ptr: 0, cap: 0, kind: Kind::Inline, raw: [0; 2], rc: None }
    }
    pub fn of(s: &LeanString) -> Snap {
        Snap {
            present: true,
            len: s.len(),
            ptr: s.as_ptr() as usize,
            cap: s.capacity(),
            kind: kind_of(s),
            raw: raw_words(s),
            rc: s.verif_refcount(),
        }
    }
}

pub fn snap_pool(pool: &Pool) -> [Snap; NSLOTS] {
    let mut out = [Snap::absent(); NSLOTS];
    for i in 0..NSLOTS {
        if let Some(s) = pool.slots[i].as_ref() {
            out[i] = Snap::of(s);
        }
    }
    out
}

#[derive(Clone, Copy, Debug, PartialEq, Eq)]
pub enum Share {
    NoBuffer,
    Unique,
    SharedSameLen,
    SharedLongerSibling,
    SharedShorterSibling,
}

pub fn share_class(snaps: &[Snap; NSLOTS], t: usize) -> Share {
    let s = &snaps[t];
    if !s.present || s.kind == Kind::Inline {
        return Share::NoBuffer;
    }
    let mut n = 0;
    let mut longer = false;
    let mut shorter = false;
    for (i, o) in snaps.iter().enumerate() {
        if i != t && o.present && o.kind == s.kind && o.ptr == s.ptr {
            n += 1;
            if o.len > s.len {
                longer = true;
            }
            if o.len < s.len {
                shorter = true;
            }
        }
    }
    if n == 0 {
        Share::Unique
    } else if longer {
        Share::SharedLongerSibling
    } else if shorter {
        Share::SharedShorterSibling
    } else {
        Share::SharedSameLen
    }
}

fn len_class(l: usize) -> u64 {
    if l == 0 {
        0
    } else if l < INLINE_CAP {
        1
    } else if l == INLINE_CAP {
        2
    } else {
        3
    }
}

fn tag_hash(s: &str) -> u64 {
    hash_bytes(0xABCD, s.as_bytes())
}

/// Which properties a run decides. Violations of other properties' monitors are recorded as
/// cross-property events.
pub struct Explorer {
    pub cov: Cov,
    pub viols: Vec<(Viol, String)>,
    pub cross: BTreeMap<String, u64>,
    pub cross_samples: Vec<String>,
    /// properties this run decides (empty = all). Findings of other monitors are counted as
    /// cross-property events and the history continues, so that their consequences can show up.
    pub decides: Vec<usize>,
    pub max_viols: usize,
    pub cmp_every: u64,
    pub track_heap: bool,
    pub trace_digest: bool,
    pub swallowed_ok: u64,
}

pub struct HistoryCtx {
    pub seed: u64,
    pub index: u64,
    pub profile: Profile,
    pub oplog: Vec<Op>,
}

impl Explorer {
    pub fn new() -> Explorer {
        let m = shim::mode();
        Explorer {
            cov: Cov::new(),
            viols: Vec::new(),
            cross: BTreeMap::new(),
            cross_samples: Vec::new(),
            decides: Vec::new(),
            max_viols: 5,
            cmp_every: 7,
            track_heap: matches!(m, Mode::Track | Mode::Shadow),
            trace_digest: false,
            swallowed_ok: 0,
        }
    }

    /// Runs one history; returns the violations found in it (the history stops at the first
    /// step with a violation).
    pub fn run_history(
        &mut self,
        seed: u64,
        index: u64,
        profile: Profile,
        nsteps: usize,
        fault_plan: Option<(u64, u64)>,
    ) -> (Vec<Viol>, HistoryCtx, u64) {
        let mut r = Rng::new(mix(seed, index));
        let genr = Gen::new(profile);
        let mut pool = Pool::new();
        let mut ctx = HistoryCtx { seed, index, profile, oplog: Vec::new() };
        let mut found: Vec<Viol> = Vec::new();
        self.cov.histories += 1;
        shim::take_errors();
        shim::clear_log();
        shim::reset_fail_counters();
        // history-level fault plan (C05 engine): request indices counted over the whole history
        let hist_faults = fault_plan.is_some();
        if let Some((a, b)) = fault_plan {
            shim::arm(a, b);
        } else {
            shim::arm(0, 0);
        }
        let mut requests_total = 0u64;
        for stepno in 0..nsteps {
            let mut step = genr.next(&mut r, &pool);
            if hist_faults {
                step.fault = None;
            }
            ctx.oplog.push(step.op.clone());
            let v = self.step(&mut pool, &step, hist_faults);
            if !v.is_empty() {
                for mut x in v {
                    x.msg = format!("step {} {}: {}", stepno, step.op.show(), x.msg);
                    found.push(x);
                }
                break;
            }
        }
        requests_total += shim::req_index();
        shim::disarm();
        // end of history: drop everything in pseudo-random order, then the heap must be empty
        if found.is_empty() {
            let mut order: Vec<usize> = (0..NSLOTS).collect();
            for i in (1..NSLOTS).rev() {
                order.swap(i, r.below(i + 1));
            }
            let eoh = self.end_of_history(&mut pool, &order);
            let (keep, _) = self.filter(eoh, "end of history");
            found.extend(keep);
        } else {
            Self::abandon(&mut pool);
        }
        (found, ctx, requests_total)
    }

    /// Drops every handle (in `order`) and checks that nothing is left on the heap.
    pub fn end_of_history(&mut self, pool: &mut Pool, order: &[usize]) -> Vec<Viol> {
        let mut found = Vec::new();
        for &i in order {
            pool.slots[i] = None;
            pool.model[i] = None;
            pool.static_id[i] = None;
        }
        shim::drain_quarantine();
        for e in shim::take_errors() {
            found.push(Viol { prop: 3, monitor: "shadow-heap", msg: format!("at final drop: {e}") });
        }
        if self.track_heap {
            let live = shim::live_snapshot();
            self.cov.mon("leak-at-end", true);
            if !live.is_empty() {
                found.push(Viol {
                    prop: 3,
                    monitor: "leak-at-end",
                    msg: format!(
                        "{} heap block(s) still allocated after every handle was dropped (sizes {:?})",
                        live.len(),
                        live.iter().map(|x| x.1).take(4).collect::<Vec<_>>()
                    ),
                });
                shim::forget_live();
            }
        }
        if let Some(i) = statics_damaged() {
            found.push(Viol { prop: 10, monitor: "static-pristine", msg: format!("static text #{i} modified") });
        }
        found
    }

    /// After a violation: leak what is left (state may be inconsistent) and reset the shim tables.
    pub fn abandon(pool: &mut Pool) {
        for i in 0..NSLOTS {
            if let Some(s) = pool.slots[i].take() {
                std::mem::forget(s);
            }
            pool.model[i] = None;
            pool.static_id[i] = None;
        }
        shim::take_errors();
        shim::forget_live();
    }

    fn viol(out: &mut Vec<Viol>, prop: usize, monitor: &'static str, msg: String) {
        out.push(Viol { prop, monitor, msg });
    }

    /// Splits findings into those this run decides and cross-property events (counted, not returned).
    pub fn filter(&mut self, found: Vec<Viol>, what: &str) -> (Vec<Viol>, bool) {
        if self.decides.is_empty() {
            return (found, false);
        }
        let mut keep = Vec::new();
        let mut had_cross = false;
        for v in found {
            if self.decides.contains(&v.prop) {
                keep.push(v);
            } else {
                had_cross = true;
                let k = format!("C{:02}:{}", v.prop, v.monitor);
                let c = self.cross.entry(k).or_insert(0);
                *c += 1;
                if *c <= 2 && self.cross_samples.len() < 6 {
                    let mut m = format!("C{:02} [{}] {}: {}", v.prop, v.monitor, what, v.msg);
                    m.truncate(m.floor_char_boundary(300));
                    self.cross_samples.push(m);
                }
            }
        }
        (keep, had_cross)
    }

    /// After a cross-property finding: make the model follow the real values so that the run
    /// can go on and later findings are relative to what the handles hold now.
    fn resync(pool: &mut Pool) {
        for i in 0..NSLOTS {
            let text: Option<Option<String>> = pool.slots[i].as_ref().map(|s| std::str::from_utf8(s.as_bytes()).ok().map(|x| x.to_string()));
            match text {
                None => {
                    pool.model[i] = None;
                    pool.static_id[i] = None;
                }
                Some(Some(t)) => pool.model[i] = Some(t),
                Some(None) => {
                    // invalid UTF-8: cannot be modelled; abandon this handle
                    if let Some(s) = pool.slots[i].take() {
                        std::mem::forget(s);
                    }
                    pool.model[i] = None;
                    pool.static_id[i] = None;
                }
            }
        }
    }

    /// One step with all monitors; returns only the findings this run decides.
    pub fn step(&mut self, pool: &mut Pool, step: &Step, hist_faults: bool) -> Vec<Viol> {
        let all = self.step_inner(pool, step, hist_faults);
        if all.is_empty() {
            return all;
        }
        let what = step.op.show();
        let (keep, had_cross) = self.filter(all, &what);
        if keep.is_empty() && had_cross {
            Self::resync(pool);
        }
        keep
    }

    /// One step: apply to model and real, judge the outcome, run all monitors.
    fn step_inner(&mut self, pool: &mut Pool, step: &Step, hist_faults: bool) -> Vec<Viol> {
        let mut out: Vec<Viol> = Vec::new();
        let op = &step.op;
        let t = op.target();
        let snaps = snap_pool(pool);
        let model_before = pool.model[t].clone();
        let sid_before = pool.static_id[t];
        let share = share_class(&snaps, t);
        let is_cb_panic = matches!(
            op,
            Op::RetainPanic { .. } | Op::ExtendPanic { .. } | Op::CollectPanic { .. } | Op::ToLeanPanic { .. }
        );
        let index_op = matches!(op, Op::Remove { .. } | Op::Insert { .. } | Op::InsertStr { .. } | Op::Truncate { .. });
        let live_before = if self.track_heap && index_op { Some(shim::live_snapshot()) } else { None };

        shim::clear_log();
        let failed0 = shim::failed_count();
        let refused0 = shim::refused_count();
        if !hist_faults {
            match step.fault {
                Some(j) if !is_cb_panic => shim::arm(j, 0),
                _ => shim::arm(0, 0),
            }
        }
        let counts0 = shim::counts();
        let model_out = apply_model(pool, op);
        let mut info = StepInfo::default();
        let real_out = apply_real(pool, op, &mut info);
        if !hist_faults {
            shim::disarm();
        }
        let dcounts = shim::delta(counts0, shim::counts());
        let log: Vec<Req> = shim::take_log();
        let failed = shim::failed_count() - failed0;
        let refused = shim::refused_count() - refused0;
        self.cov.steps += 1;

        // ---------------------------------------------------------------- outcome judgement
        let mut value_unchanged_expected = false;
        match (&model_out, &real_out) {
            (Out::Panic(mm), real) if is_cb_panic && !((failed > 0 || refused > 0) && real.is_reserve_failure()) => {
                // C18: the callback panicked; the model already holds what String holds
                let _ = mm;
                self.cov.mon("callback-panic", true);
                match &real_out {
                    Out::Panic(m) if m == CB_PANIC => {}
                    other => Self::viol(
                        &mut out,
                        18,
                        "callback-panic",
                        format!("callback panicked but the call returned {:?}", other),
                    ),
                }
                if matches!(op, Op::CollectPanic { .. } | Op::ToLeanPanic { .. }) {
                    // the result never existed: slot keeps the old value
                    pool.model[t] = model_before.clone();
                    pool.static_id[t] = sid_before;
                }
                let sig = mix(tag_hash(op.tag()), mix(snaps[t].kind as u64, share as u64));
                self.cov.hit(18, sig, || format!("{} on {:?}/{:?}", op.show(), snaps[t].kind, share));
            }
            (Out::Panic(_), real) if !is_cb_panic => {
                // C07: String panicked on the index
                self.cov.mon("index-panic-parity", true);
                match real {
                    Out::Panic(m) if m != RESERVE_MSG && m != CB_PANIC => {}
                    other => Self::viol(
                        &mut out,
                        7,
                        "index-panic-parity",
                        format!("String panics for this index but LeanString returned {:?}", other),
                    ),
                }
                // no effect on the target
                if let Some(s) = pool.slots[t].as_ref() {
                    let now = Snap::of(s);
                    if now != snaps[t] {
                        Self::viol(
                            &mut out,
                            7,
                            "rejected-call-no-effect",
                            format!("target changed by a rejected call: before {:?} after {:?}", snaps[t], now),
                        );
                    }
                } else {
                    Self::viol(&mut out, 7, "rejected-call-no-effect", "target vanished".into());
                }
                if let Some(lb) = &live_before {
                    if *lb != shim::live_snapshot() {
                        Self::viol(
                            &mut out,
                            7,
                            "rejected-call-no-effect",
                            "set of live heap blocks changed by a rejected call".into(),
                        );
                    }
                }
                let sig = mix(tag_hash(op.tag()), mix(snaps[t].kind as u64, mix(share as u64, len_class(snaps[t].len))));
                self.cov.hit(7, sig, || format!("{} on {:?}/{:?} -> panic", op.show(), snaps[t].kind, share));
            }
            (_, real) if real.is_reserve_failure() => {
                let legit = failed > 0 || refused > 0 || size_exceeds_max(op, model_before.as_deref());
                let prop = if failed > 0 { 5 } else { 6 };
                self.cov.mon("reserve-failure", legit);
                if !legit {
                    Self::viol(
                        &mut out,
                        1,
                        "outcome",
                        format!("spurious allocation failure {:?} (no request was refused)", real),
                    );
                }
                if op.is_try() && *real != Out::Err {
                    Self::viol(&mut out, prop, "failure-form", format!("try_ form did not return Err: {:?}", real));
                }
                // value must be what it was (iterator-driven ops may stop between items)
                match op {
                    Op::Add { .. } => {
                        pool.model[t] = None;
                        pool.static_id[t] = None;
                    }
                    Op::Extend { kind, items, .. } | Op::ExtendPanic { kind, items, .. } => {
                        let before = model_before.clone().unwrap_or_default();
                        match prefix_state(&before, *kind, items, pool.slots[t].as_ref().map(|s| s.as_bytes())) {
                            Some(s) => pool.model[t] = Some(s),
                            None => {
                                pool.model[t] = Some(before);
                            }
                        }
                    }
                    Op::Write { pieces, .. } => {
                        let before = model_before.clone().unwrap_or_default();
                        // pieces are written whole (write!/write_str) or char by char (write_char)
                        match prefix_state(&before, ItemKind::Char, pieces, pool.slots[t].as_ref().map(|s| s.as_bytes()))
                        {
                            Some(s) => pool.model[t] = Some(s),
                            None => pool.model[t] = Some(before),
                        }
                    }
                    _ => {
                        pool.model[t] = model_before.clone();
                        pool.static_id[t] = sid_before;
                    }
                }
                value_unchanged_expected = true;
                let single_shot = !matches!(op, Op::Extend { .. } | Op::ExtendPanic { .. } | Op::Write { .. } | Op::Add { .. }) && !op.is_constructor();
                if single_shot && snaps[t].present {
                    if let Some(s) = pool.slots[t].as_ref() {
                        if s.capacity() < snaps[t].cap {
                            Self::viol(
                                &mut out,
                                prop,
                                "failed-call-capacity",
                                format!("the failed call took away capacity the string had: {} -> {} ({:?} -> {:?})", snaps[t].cap, s.capacity(), snaps[t].kind, kind_of(s)),
                            );
                        }
                    }
                }
                let sig = mix(
                    tag_hash(op.tag()),
                    mix(snaps[t].kind as u64, mix(share as u64, mix(failed.min(1), refused.min(1)))),
                );
                self.cov.hit(prop, sig, || {
                    format!(
                        "{} on {:?}/{:?} -> {} (failed={}, refused={})",
                        op.show(),
                        snaps[t].kind,
                        share,
                        real.class(),
                        failed,
                        refused
                    )
                });
                if prop == 5 && share != Share::NoBuffer && share != Share::Unique {
                    self.cov.count("c05_failed_while_shared", 1);
                }
            }
            (m, real) if m.is_ok() && real.is_ok() => {
                if m != real {
                    Self::viol(
                        &mut out,
                        1,
                        "return-value",
                        format!("returned {:?} but String returned {:?}", real, m),
                    );
                }
                if failed > 0 {
                    // a request failed but the call succeeded: only the callers that deliberately
                    // ignore the size-hint reservation may do that
                    let ignoring = matches!(
                        op,
                        Op::Extend { kind: ItemKind::Char | ItemKind::CharRef, .. }
                            | Op::Collect { kind: ItemKind::Char | ItemKind::CharRef, .. }
                            | Op::Utf16Lossy { .. }
                    );
                    if ignoring {
                        self.swallowed_ok += 1;
                    } else {
                        Self::viol(
                            &mut out,
                            5,
                            "failure-form",
                            "an allocation request failed but the call reported success".into(),
                        );
                    }
                }
                if let Some(ft) = &info.float_text {
                    pool.model[t] = Some(ft.clone());
                    if let Op::ToLean { v, .. } = op {
                        if let Err(e) = float_roundtrip(v, ft) {
                            Self::viol(&mut out, 15, "float-roundtrip", e);
                        }
                    }
                }
            }
            (Out::ErrOther(_), Out::ErrOther(_)) => {
                pool.model[t] = model_before.clone();
                pool.static_id[t] = sid_before;
            }
            (m, real) => {
                let prop = if matches!(op, Op::Utf16 { .. } | Op::FromUtf8 { .. }) { 16 } else { 1 };
                Self::viol(&mut out, prop, "outcome", format!("LeanString: {:?}, String model: {:?}", real, m));
                // a refused request must surface as ReserveError (try_ forms) or as a panic carrying its
                // message (plain forms) - never as some other result of the operation
                if failed + refused > 0 && prop != 1 {
                    Self::viol(
                        &mut out,
                        if failed > 0 { 5 } else { 6 },
                        "failure-form",
                        format!("an allocation request was refused and the call reported {:?} (String model: {:?})", real, m),
                    );
                }
                pool.model[t] = model_before.clone();
            }
        }

        // keep model/real slot presence in sync after failures in constructors
        if pool.slots[t].is_none() && pool.model[t].is_some() && !matches!(op, Op::Add { .. }) {
            // the constructor failed before assigning, or a niche confusion: decided below
        }

        // ---------------------------------------------------------------- state monitors
        self.check_state(pool, &snaps, t, !log.is_empty(), &mut out);

        // bystanders (C02)
        let shared_pre = !matches!(share, Share::NoBuffer | Share::Unique);
        self.cov.mon("bystander", shared_pre);
        for i in 0..NSLOTS {
            if i == t || !snaps[i].present {
                continue;
            }
            match pool.slots[i].as_ref() {
                None => Self::viol(&mut out, 2, "bystander", format!("slot {i} vanished")),
                Some(s) => {
                    let now = Snap::of(s);
                    let b = &snaps[i];
                    if now.len != b.len || now.ptr != b.ptr || now.cap != b.cap || now.kind != b.kind || now.raw != b.raw
                    {
                        Self::viol(
                            &mut out,
                            2,
                            "bystander",
                            format!("handle in slot {i} (not the target) changed: before {:?} after {:?}", b, now),
                        );
                    }
                }
            }
        }
        if shared_pre {
            let sig = mix(tag_hash(op.tag()), mix(share as u64, mix(tag_hash(real_out.class()), snaps[t].kind as u64)));
            self.cov.hit(2, sig, || format!("{} on {:?}/{:?} -> {}", op.show(), snaps[t].kind, share, real_out.class()));
        }
        // failed call: target value unchanged is enforced through the model (restored above);
        // representation change is recorded only
        if value_unchanged_expected {
            if let Some(s) = pool.slots[t].as_ref() {
                let now = Snap::of(s);
                if snaps[t].present && (now.ptr != snaps[t].ptr || now.cap != snaps[t].cap) {
                    self.cov.count("failed_call_changed_representation", 1);
                }
            }
        }

        // shim-level findings (C03)
        shim::check_live_guards();
        for e in shim::take_errors() {
            Self::viol(&mut out, 3, "shadow-heap", e);
        }
        if let Some(i) = statics_damaged() {
            Self::viol(&mut out, 10, "static-pristine", format!("static text #{i} was modified"));
        }

        // op-specific monitors (not blocked by findings that this run only counts as cross-property
        // events: a persistent one, e.g. a leaked block, would otherwise switch them off for good)
        let blocking = |out: &Vec<Viol>, d: &Vec<usize>| out.iter().any(|v| d.is_empty() || d.contains(&v.prop));
        if !blocking(&out, &self.decides) {
            self.check_op(pool, &snaps, op, &model_before, &real_out, &log, dcounts, &info, share, failed + refused, &mut out);
        }

        // C17 (sampled)
        if !blocking(&out, &self.decides) && self.cmp_every > 0 && self.cov.steps % self.cmp_every == 0 {
            self.check_cmp(pool, &mut out);
        }

        // a C01/C02/C03-monitor finding on a step that a more specific property speaks about is a
        // violation of that property as well (its statement includes the value / isolation / heap clause)
        if !out.is_empty() {
            let mut inherit: Vec<usize> = Vec::new();
            if matches!(model_out, Out::Panic(_)) && !is_cb_panic {
                inherit.push(7);
            }
            // "... and accept all others": an index-taking call that panics where String accepts the index
            let index_op = matches!(op, Op::Insert { .. } | Op::InsertStr { .. } | Op::Remove { .. } | Op::Truncate { .. });
            if index_op && matches!(real_out, Out::Panic(_)) && !matches!(model_out, Out::Panic(_)) && failed + refused == 0 {
                inherit.push(7);
            }
            if is_cb_panic {
                inherit.push(18);
            }
            if value_unchanged_expected || failed > 0 {
                inherit.push(if failed > 0 { 5 } else { 6 });
            }
            if refused > 0 || size_exceeds_max(op, model_before.as_deref()) {
                inherit.push(6);
            }
            if snaps[t].present && snaps[t].kind == Kind::Static {
                inherit.push(10);
            }
            if op.is_clone_like() {
                inherit.push(8);
            }
            if matches!(op, Op::ShrinkTo { .. } | Op::ShrinkFit { .. }) {
                inherit.push(13);
            }
            let cap_promise = matches!(
                op,
                Op::Push { .. } | Op::PushStr { .. } | Op::Insert { .. } | Op::InsertStr { .. } | Op::AddAssign { .. } | Op::Write { .. } | Op::Reserve { .. } | Op::WithCap { .. } | Op::Extend { .. }
            );
            inherit.sort_unstable();
            inherit.dedup();
            let mut extra: Vec<Viol> = Vec::new();
            for v in out.iter() {
                if matches!(v.prop, 1 | 2 | 3) {
                    for &p in &inherit {
                        extra.push(Viol { prop: p, monitor: v.monitor, msg: format!("(C{:02} monitor on a step C{:02} speaks about) {}", v.prop, p, v.msg) });
                    }
                    if cap_promise && v.monitor == "shadow-heap" {
                        extra.push(Viol { prop: 11, monitor: v.monitor, msg: format!("(reserved room is not really there) {}", v.msg) });
                    }
                }
            }
            out.extend(extra);
        }

        // coverage
        let kind_after = pool.slots[t].as_ref().map(kind_of);
        let sig = mix(
            tag_hash(op.tag()),
            mix(
                snaps[t].kind as u64 + if snaps[t].present { 0 } else { 8 },
                mix(
                    share as u64,
                    mix(len_class(snaps[t].len), mix(tag_hash(real_out.class()), kind_after.map(|k| k as u64).unwrap_or(9))),
                ),
            ),
        );
        let changed = snaps[t].present != pool.slots[t].is_some()
            || model_before != pool.model[t]
            || kind_after != Some(snaps[t].kind);
        let want = |p: usize| self.decides.is_empty() || self.decides.contains(&p);
        let (w1, w3, w20) = (want(1), want(3), want(20));
        if changed && w1 {
            self.cov.hit(1, sig, || format!("{} on {:?}/{:?} -> {}", op.show(), snaps[t].kind, share, real_out.class()));
        }
        if w3 {
            self.cov.hit(3, sig ^ 3, || format!("{} [{} requests]", op.show(), log.len()));
        }
        if w20 {
            self.cov.hit(20, sig ^ 20, || format!("{} -> {:?}", op.show(), kind_after));
        }
        if log.iter().any(|q| q.kind != ReqKind::Dealloc) || !log.is_empty() {
            self.cov.count("steps_with_allocator_requests", 1);
        }
        let cell_sig = mix(
            tag_hash(op.tag()),
            mix(snaps[t].kind as u64 + if snaps[t].present { 0 } else { 8 }, mix(share as u64, tag_hash(real_out.class()))),
        );
        match self.cov.matrix_ix.binary_search_by_key(&cell_sig, |x| x.0) {
            Ok(i) => self.cov.matrix_ix[i].2 += 1,
            Err(i) => {
                let name = format!(
                    "{}|{}|{:?}|{}",
                    op.tag(),
                    if snaps[t].present { format!("{:?}", snaps[t].kind) } else { "empty".into() },
                    share,
                    real_out.class()
                );
                self.cov.matrix_ix.insert(i, (cell_sig, name, 1));
            }
        }
        if self.trace_digest {
            let mut d = mix(self.cov.digest, tag_hash(op.tag()));
            d = mix(d, tag_hash(real_out.class()));
            if let Out::Char(c) | Out::OptChar(Some(c)) = real_out {
                d = mix(d, c as u64);
            }
            for i in 0..NSLOTS {
                match pool.slots[i].as_ref() {
                    None => d = mix(d, 0x99),
                    Some(s) => {
                        d = hash_bytes(d, s.as_bytes());
                        d = mix(d, s.capacity() as u64);
                        d = mix(d, kind_of(s) as u64);
                        d = mix(d, s.verif_refcount().unwrap_or(0) as u64);
                    }
                }
            }
            self.cov.digest = d;
        }
        out
    }

    /// Invariants of every live handle + reference counts + heap accounting.
    fn check_state(&mut self, pool: &Pool, snaps: &[Snap; NSLOTS], t: usize, had_requests: bool, out: &mut Vec<Viol>) {
        let mut groups: Vec<(usize, usize, usize)> = Vec::new(); // (ptr, handles, cap)
        for i in 0..NSLOTS {
            let (slot, model) = (&pool.slots[i], &pool.model[i]);
            match (slot.as_ref(), model.as_ref()) {
                (None, None) => {}
                (None, Some(m)) => {
                    Self::viol(
                        out,
                        20,
                        "niche",
                        format!("slot {i}: Option<LeanString> reads as None although it holds {:?}", m),
                    );
                }
                (Some(s), None) => {
                    Self::viol(out, 1, "model-eq", format!("slot {i}: holds {:?} but model is empty", s.as_bytes()));
                }
                (Some(s), Some(m)) => {
                    let lb = raw_last_byte(s);
                    if lb > 0xD1 {
                        Self::viol(out, 20, "niche", format!("slot {i}: last byte {:#x} lies in the niche range", lb));
                    }
                    let bytes = s.as_bytes();
                    if bytes != m.as_bytes() && i != t && snaps[i].present {
                        Self::viol(
                            out,
                            2,
                            "bystander",
                            format!("slot {i} (not the target of the step) no longer reads its own text: {:?}", String::from_utf8_lossy(&bytes[..bytes.len().min(60)])),
                        );
                    }
                    if bytes != m.as_bytes() {
                        let valid = std::str::from_utf8(bytes).is_ok();
                        Self::viol(
                            out,
                            1,
                            "model-eq",
                            format!(
                                "slot {i}: reads {:?}{} but String holds {:?}",
                                String::from_utf8_lossy(&bytes[..bytes.len().min(80)]),
                                if valid { "" } else { " (INVALID UTF-8)" },
                                &m[..m.floor_char_boundary(80)]
                            ),
                        );
                    }
                    if s.len() != m.len() || s.is_empty() != m.is_empty() || s.as_str().len() != m.len() {
                        Self::viol(out, 1, "model-eq", format!("slot {i}: len() {} / as_str().len() {} / is_empty() {} but String has len {} / is_empty() {}", s.len(), s.as_str().len(), s.is_empty(), m.len(), m.is_empty()));
                    }
                    if s.capacity() < s.len() {
                        Self::viol(out, 11, "capacity>=len", format!("slot {i}: capacity {} < len {}", s.capacity(), s.len()));
                    }
                    let k = kind_of(s);
                    if k == Kind::Heap {
                        let p = s.as_ptr() as usize;
                        let ix = match groups.iter().position(|g| g.0 == p) {
                            Some(ix) => ix,
                            None => {
                                groups.push((p, 0, s.capacity()));
                                groups.len() - 1
                            }
                        };
                        groups[ix].1 += 1;
                        if groups[ix].2 != s.capacity() {
                            Self::viol(out, 3, "refcount", format!("slot {i}: handles of one buffer report different capacities"));
                        }
                    } else if k == Kind::Inline && s.capacity() != INLINE_CAP {
                        Self::viol(out, 11, "capacity>=len", format!("slot {i}: inline capacity {}", s.capacity()));
                    }
                }
            }
        }
        self.cov.mon("model-eq", true);
        // refcount == number of live handles on that buffer
        self.cov.mon("refcount", !groups.is_empty());
        for i in 0..NSLOTS {
            if let Some(s) = pool.slots[i].as_ref() {
                if let Some(rc) = s.verif_refcount() {
                    let p = s.as_ptr() as usize;
                    let g = groups.iter().find(|g| g.0 == p).map(|x| x.1).unwrap_or(0);
                    if rc != g {
                        Self::viol(
                            out,
                            3,
                            "refcount",
                            format!("slot {i}: reference count is {rc} but {g} live handle(s) point at the buffer"),
                        );
                        break;
                    }
                }
            }
        }
        if self.track_heap && !had_requests && self.cov.steps % 8 != 0 {
            // cheap form: only the number of live blocks
            let n = shim::live_count();
            if n != groups.len() {
                Self::viol(
                    out,
                    3,
                    "heap-accounting",
                    format!("{} live heap block(s) but {} distinct buffer(s) are referenced by live handles", n, groups.len()),
                );
            }
        } else if self.track_heap {
            let live = shim::live_snapshot();
            if live.len() != groups.len() {
                Self::viol(
                    out,
                    3,
                    "heap-accounting",
                    format!("{} live heap block(s) but {} distinct buffer(s) are referenced by live handles", live.len(), groups.len()),
                );
            }
            let hdr = 2 * std::mem::size_of::<usize>();
            for (ptr, _, cap) in &groups {
                match live.binary_search_by_key(&(ptr - hdr), |x| x.0) {
                    Ok(ix) => {
                        if live[ix].1 != hdr + cap {
                            Self::viol(
                                out,
                                3,
                                "heap-accounting",
                                format!("buffer reports capacity {} but its block has {} bytes (expected {})", cap, live[ix].1, hdr + cap),
                            );
                        }
                    }
                    Err(_) => Self::viol(out, 3, "heap-accounting", "a live handle points at a block that is not allocated".into()),
                }
            }
        }
    }

    #[allow(clippy::too_many_arguments)]
    fn check_op(
        &mut self,
        pool: &Pool,
        snaps: &[Snap; NSLOTS],
        op: &Op,
        model_before: &Option<String>,
        real_out: &Out,
        log: &[Req],
        dc: shim::Counts,
        info: &StepInfo,
        share: Share,
        faults: u64,
        out: &mut Vec<Viol>,
    ) {
        let t = op.target();
        let before = &snaps[t];
        let after = pool.slots[t].as_ref().map(Snap::of);
        let ok = real_out.is_ok();
        let l_before = model_before.as_ref().map(|m| m.len()).unwrap_or(0);
        let m_after_len = pool.model[t].as_ref().map(|m| m.len()).unwrap_or(0);
        let counted = self.track_heap;
        let total_req = if counted { log.len() as u64 } else { dc.total() };
        // temporaries: allocations the crate caused outside its own (hooked) allocator calls; only
        // meaningful while a shim is installed (otherwise the crate's own requests land there too)
        let foreign = if shim::mode() != shim::Mode::Off { info.foreign.unwrap_or(0) } else { 0 };

        // ------------------------------------------------------------------ C08 clone is O(1)
        if op.is_clone_like() && ok {
            let src = op.source().unwrap();
            let s = &snaps[src];
            let a = after.as_ref().unwrap();
            self.cov.mon("clone-o1", true);
            // the only legitimate request: the destination releasing a buffer it owned alone
            let dst_last = before.present && before.kind == Kind::Heap && before.rc == Some(1);
            let allowed_dealloc = if dst_last { 1 } else { 0 };
            if dc.alloc != 0 || dc.realloc != 0 || dc.dealloc > allowed_dealloc || foreign != 0 {
                Self::viol(
                    out,
                    8,
                    "clone-o1",
                    format!("clone issued allocator requests: {} alloc, {} realloc, {} dealloc, {} allocation(s) of temporaries", dc.alloc, dc.realloc, dc.dealloc, foreign),
                );
            }
            match s.kind {
                Kind::Heap | Kind::Static => {
                    if a.ptr != s.ptr || a.kind != s.kind {
                        Self::viol(out, 8, "clone-o1", format!("copy does not point at the source's bytes ({:?} vs {:?})", a, s));
                    }
                }
                Kind::Inline => {
                    if a.raw != s.raw || a.kind != Kind::Inline {
                        Self::viol(out, 8, "clone-o1", "inline copy is not a 2-word copy".into());
                    }
                }
            }
            if a.len != s.len || a.cap != s.cap {
                Self::viol(out, 8, "clone-o1", "copy has different len/capacity".into());
            }
            if s.kind == Kind::Heap {
                let same_buf = before.present && before.kind == Kind::Heap && before.ptr == s.ptr;
                let expect = s.rc.unwrap_or(0) + if same_buf { 0 } else { 1 };
                if a.rc != Some(expect) {
                    Self::viol(out, 8, "clone-o1", format!("reference count after clone is {:?}, expected {}", a.rc, expect));
                }
            }
            if pool.slots[t].as_ref().unwrap() != pool.slots[src].as_ref().unwrap() {
                Self::viol(out, 8, "clone-o1", "copy does not compare equal to the original".into());
            }
            if s.kind == Kind::Static {
                let extra: Vec<Viol> = out
                    .iter()
                    .filter(|v| v.prop == 8)
                    .map(|v| Viol { prop: 10, monitor: v.monitor, msg: format!("(clone of a static-stored handle) {}", v.msg) })
                    .collect();
                out.extend(extra);
            }
            let sc = share_class(snaps, src);
            let sig = mix(tag_hash(op.tag()), mix(s.kind as u64, mix(sc as u64, mix(len_class(s.len), dst_last as u64))));
            self.cov.hit(8, sig, || format!("{} src {:?}/{:?} len {}", op.tag(), s.kind, sc, s.len));
            if s.kind == Kind::Static {
                self.cov.hit(10, sig, || format!("{} of static handle len {}", op.tag(), s.len));
            }
        }

        // ------------------------------------------------------------------ C09 / C10 constructors
        if let (Some(c), true, Some(a)) = (info.construct, ok, after.as_ref()) {
            let text_routes = matches!(
                op,
                Op::FromStr { .. }
                    | Op::FromString { .. }
                    | Op::FromStringRef { .. }
                    | Op::FromBox { .. }
                    | Op::FromCowB { .. }
                    | Op::FromCowO { .. }
                    | Op::Parse { .. }
                    | Op::FromUtf8 { .. }
                    | Op::FromUtf8Unchecked { .. }
                    | Op::ToLean { v: Tls::Str(_), .. }
            );
            let small_routes = text_routes
                || matches!(
                    op,
                    Op::New { .. }
                        | Op::FromChar { .. }
                        | Op::ToLean { v: Tls::Int(..) | Tls::Bool(_) | Tls::Char(_), .. }
                );
            if small_routes && m_after_len <= INLINE_CAP {
                self.cov.mon("construct-inline", true);
                if c.total() != 0 || a.kind != Kind::Inline || foreign != 0 {
                    Self::viol(
                        out,
                        9,
                        "construct-inline",
                        format!("text of {} bytes: {} allocator requests, {} allocation(s) of temporaries, storage {:?}", m_after_len, c.total(), foreign, a.kind),
                    );
                }
                let lastb = pool.model[t].as_ref().and_then(|m| m.as_bytes().last().copied()).unwrap_or(0);
                let sig = mix(tag_hash(op.tag()), mix(m_after_len as u64, if m_after_len == INLINE_CAP { lastb as u64 } else { 0 }));
                self.cov.hit(9, sig, || format!("{} -> inline len {}", op.show(), m_after_len));
            } else if text_routes && m_after_len > INLINE_CAP && faults == 0 {
                self.cov.mon("construct-one-alloc", true);
                if c.alloc != 1 || c.realloc != 0 || c.dealloc != 0 || a.cap != a.len || a.kind != Kind::Heap || foreign != 0 {
                    Self::viol(
                        out,
                        9,
                        "construct-one-alloc",
                        format!(
                            "text of {} bytes: {} alloc / {} realloc / {} dealloc, {} allocation(s) of temporaries, capacity {}, storage {:?}",
                            m_after_len, c.alloc, c.realloc, c.dealloc, foreign, a.cap, a.kind
                        ),
                    );
                }
                let sig = mix(tag_hash(op.tag()), 1000 + len_class(m_after_len) + (m_after_len.min(40) as u64) * 8);
                self.cov.hit(9, sig, || format!("{} -> heap len {}", op.tag(), m_after_len));
            } else if matches!(op, Op::ToLean { v: Tls::Int(..), .. }) {
                self.cov.count("c09_long_integer_requests_recorded", c.total());
            }
            if let Op::WithCap { n, .. } = op {
                self.cov.mon("with-capacity-post", true);
                if a.cap < *n {
                    Self::viol(out, 11, "with-capacity-post", format!("with_capacity({n}) ok but capacity is {}", a.cap));
                    Self::viol(out, 6, "with-capacity-post", format!("with_capacity({n}) reported success without its postcondition: capacity is {}", a.cap));
                }
                self.cov.hit(11, mix(1150, mix((*n <= INLINE_CAP) as u64, len_class(*n))), || format!("with_capacity({n}) -> cap {}", a.cap));
                if (*n as u64) > (1u64 << 40) {
                    self.cov.hit(6, mix(1151, *n as u64), || format!("with_capacity({n}) reported Ok"));
                }
            }
            if let Op::FromStatic { id, .. } = op {
                self.cov.mon("static-borrow", true);
                let txt = static_text(*id);
                if c.total() != 0 || foreign != 0 {
                    Self::viol(out, 10, "static-borrow", format!("from_static_str issued {} allocator requests, {} allocation(s) of temporaries", c.total(), foreign));
                }
                if txt.len() > INLINE_CAP {
                    if a.ptr != txt.as_ptr() as usize || a.kind != Kind::Static {
                        Self::viol(out, 10, "static-borrow", "from_static_str result does not point at the caller's bytes".into());
                    }
                } else if a.kind != Kind::Inline {
                    Self::viol(out, 10, "static-borrow", "short static text is not stored inline".into());
                }
                self.cov.hit(10, mix(77, *id as u64), || format!("from_static_str(len {})", txt.len()));
            }
        }

        // ------------------------------------------------------------------ mutators
        if !before.present || op.is_constructor() || op.is_clone_like() || matches!(op, Op::Drop { .. }) {
            return;
        }
        let a = match after.as_ref() {
            Some(a) => a,
            None => return,
        };
        // ownership is judged from the harness's own knowledge of live handles (not from the crate's count)
        let exclusively_owned = before.kind == Kind::Inline || (before.kind == Kind::Heap && share == Share::Unique);

        // C09: inline edits stay inline without touching the heap
        if before.kind == Kind::Inline
            && ok
            && m_after_len <= INLINE_CAP
            && matches!(
                op,
                Op::Push { .. }
                    | Op::PushStr { .. }
                    | Op::Insert { .. }
                    | Op::InsertStr { .. }
                    | Op::Pop { .. }
                    | Op::Remove { .. }
                    | Op::Retain { .. }
                    | Op::Truncate { .. }
                    | Op::Clear { .. }
            )
        {
            self.cov.mon("inline-edit", true);
            if total_req != 0 || a.kind != Kind::Inline || foreign != 0 {
                Self::viol(
                    out,
                    9,
                    "inline-edit",
                    format!("edit within 16 bytes: {} allocator requests, {} allocation(s) of temporaries, storage {:?}", total_req, foreign, a.kind),
                );
            }
            let sig = mix(tag_hash(op.tag()), mix(2000 + l_before as u64, m_after_len as u64));
            self.cov.hit(9, sig, || format!("{} inline {} -> {}", op.tag(), l_before, m_after_len));
        }

        // C10: static handles
        if before.kind == Kind::Static {
            let read_only = matches!(op, Op::Pop { .. } | Op::Truncate { .. } | Op::Clear { .. } | Op::OptionRoundTrip { .. });
            let writes = match op {
                Op::Push { .. } | Op::Insert { .. } | Op::Remove { .. } | Op::Retain { .. } | Op::Reserve { .. } => true,
                Op::PushStr { s, .. } | Op::InsertStr { s, .. } | Op::AddAssign { s, .. } | Op::Add { s, .. } => !s.is_empty(),
                Op::Extend { items, .. } | Op::Write { pieces: items, .. } => items.iter().any(|s| !s.is_empty()),
                _ => false,
            };
            if read_only && ok {
                self.cov.mon("static-readonly-op", true);
                if total_req != 0 || a.ptr != before.ptr || a.kind != Kind::Static || foreign != 0 {
                    Self::viol(
                        out,
                        10,
                        "static-readonly-op",
                        format!("{} on a static string: {} requests, {} allocation(s) of temporaries, ptr moved: {}, storage {:?}", op.tag(), total_req, foreign, a.ptr != before.ptr, a.kind),
                    );
                }
                self.cov.hit(10, mix(tag_hash(op.tag()), len_class(a.len)), || format!("{} on static len {}", op.tag(), before.len));
            }
            if writes && ok {
                self.cov.mon("static-first-write", true);
                if a.kind == Kind::Static {
                    Self::viol(out, 10, "static-first-write", format!("{} left the handle in borrowed static storage", op.tag()));
                }
                self.cov.hit(10, mix(tag_hash(op.tag()), 100 + a.kind as u64 + 4 * len_class(before.len)), || {
                    format!("{} on static len {} -> {:?}", op.tag(), before.len, a.kind)
                });
            }
        }

        // C11: with_capacity / reserve postconditions, append within capacity
        if let (Op::Reserve { n, .. }, true) = (op, ok) {
            self.cov.mon("reserve-post", true);
            let need = l_before.checked_add(*n);
            let fine = need.map(|x| a.cap >= x).unwrap_or(false);
            if !fine {
                Self::viol(out, 11, "reserve-post", format!("reserve({n}) ok but capacity {} < len {} + {n}", a.cap, l_before));
                Self::viol(out, 6, "reserve-post", format!("reserve({n}) reported success without its postcondition: capacity {} < len {} + {n}", a.cap, l_before));
            }
            let share_after = share_class(&snap_pool(pool), t);
            if a.kind == Kind::Static || (a.kind == Kind::Heap && (a.rc != Some(1) || share_after != Share::Unique)) {
                Self::viol(out, 11, "reserve-post", format!("after reserve the handle does not own its storage exclusively ({:?}, rc {:?})", a.kind, a.rc));
            }
            let sig = mix(1100, mix(before.kind as u64, mix(share as u64, mix((*n == 0) as u64, (a.ptr != before.ptr) as u64))));
            self.cov.hit(11, sig, || format!("reserve({n}) on {:?}/{:?} len {} cap {} -> cap {}", before.kind, share, l_before, before.cap, a.cap));
            if (*n as u64) > (1u64 << 40) {
                self.cov.hit(6, sig, || format!("reserve({n}) reported Ok"));
            }
        }
        let appendish = match op {
            Op::Push { .. } | Op::PushStr { .. } | Op::Insert { .. } | Op::InsertStr { .. } | Op::AddAssign { .. } | Op::Write { .. } => true,
            Op::Extend { hint, kind, .. } => hint.is_none() && *kind != ItemKind::Lean,
            _ => false,
        };
        if appendish && ok && exclusively_owned && m_after_len <= before.cap && m_after_len >= l_before {
            self.cov.mon("append-within-capacity", true);
            // (iterator- and fmt-driven appends run harness code inside the call: no temporaries rule for them)
            let foreign_here = if matches!(op, Op::Push { .. } | Op::PushStr { .. } | Op::Insert { .. } | Op::InsertStr { .. }) { foreign } else { 0 };
            if total_req != 0 || a.ptr != before.ptr || foreign_here != 0 {
                Self::viol(
                    out,
                    11,
                    "append-within-capacity",
                    format!(
                        "{}: len {} -> {} fits capacity {} of an exclusively owned string but {} allocator request(s), {} allocation(s) of temporaries, text moved: {}",
                        op.tag(), l_before, m_after_len, before.cap, total_req, foreign_here, a.ptr != before.ptr
                    ),
                );
            }
            let sig = mix(1200 + tag_hash(op.tag()), mix(before.kind as u64, (m_after_len == before.cap) as u64));
            self.cov.hit(11, sig, || format!("{} {}->{} within cap {} ({:?})", op.tag(), l_before, m_after_len, before.cap, before.kind));
        }

        // C12: growth events
        let grow_amount: Option<usize> = match op {
            Op::Push { c, .. } | Op::Insert { c, .. } => Some(c.len_utf8()),
            Op::PushStr { s, .. } | Op::InsertStr { s, .. } | Op::AddAssign { s, .. } => Some(s.len()),
            Op::Reserve { n, .. } => Some(*n),
            _ => None,
        };
        if let (Some(add), true) = (grow_amount, ok) {
            if let Some(need) = l_before.checked_add(add) {
                if need > before.cap && a.kind == Kind::Heap && faults == 0 {
                    self.cov.mon("growth", true);
                    let amort = l_before + l_before / 2;
                    if a.cap < amort || a.cap < need || a.cap > amort.max(need) {
                        Self::viol(
                            out,
                            12,
                            "growth",
                            format!(
                                "{}: len {} cap {} needs {} -> new capacity {} (expected max({}, {}))",
                                op.tag(), l_before, before.cap, need, a.cap, amort, need
                            ),
                        );
                    }
                    let rel = if add < l_before / 2 { 0 } else if add == l_before / 2 { 1 } else { 2 };
                    let sig = mix(1300 + before.kind as u64, mix(share as u64, mix(rel, tag_hash(op.tag()))));
                    self.cov.hit(12, sig, || {
                        format!("{} on {:?}/{:?}: len {} cap {} +{} -> cap {}", op.tag(), before.kind, share, l_before, before.cap, add, a.cap)
                    });
                } else if need > before.cap && a.kind != Kind::Heap {
                    self.cov.count("c12_growth_into_inline_recorded", 1);
                }
            }
        }

        // C13: shrinking
        let shrink_m = match op {
            Op::ShrinkTo { n, .. } => Some(*n),
            Op::ShrinkFit { .. } => Some(0),
            _ => None,
        };
        if let (Some(m), true) = (shrink_m, ok) {
            self.cov.mon("shrink", true);
            let len = l_before;
            if a.cap > before.cap.max(INLINE_CAP) {
                Self::viol(out, 13, "shrink", format!("shrink_to({m}): capacity grew from {} to {} (len {}, {:?})", before.cap, a.cap, len, share));
            }
            if a.cap < len {
                Self::viol(out, 13, "shrink", format!("shrink_to({m}): capacity {} below len {}", a.cap, len));
            }
            if before.cap >= m && a.cap < m {
                Self::viol(out, 13, "shrink", format!("shrink_to({m}): capacity {} fell below the requested minimum (was {})", a.cap, before.cap));
            }
            let target = len.max(m);
            if before.kind == Kind::Heap && before.cap > target {
                if target > INLINE_CAP {
                    if a.cap != target || a.kind != Kind::Heap {
                        Self::viol(
                            out,
                            13,
                            "shrink",
                            format!("shrink_to({m}) on {:?} heap string len {} cap {}: capacity is {} ({:?}), expected exactly {}", share, len, before.cap, a.cap, a.kind, target),
                        );
                    }
                } else if a.kind != Kind::Inline {
                    Self::viol(out, 13, "shrink", format!("shrink_to({m}): len {} fits inline but storage is {:?}", len, a.kind));
                }
            }
            let ratio = if before.cap > 2 * len.max(1) { 2 } else if before.cap > len { 1 } else { 0 };
            let mrel = if m < len { 0 } else if m == len { 1 } else if m < before.cap { 2 } else if m == before.cap { 3 } else { 4 };
            let sig = mix(1400 + before.kind as u64, mix(share as u64, mix(ratio, mix(mrel, (target <= INLINE_CAP) as u64))));
            self.cov.hit(13, sig, || format!("shrink_to({m}) on {:?}/{:?} len {} cap {} -> cap {} {:?}", before.kind, share, len, before.cap, a.cap, a.kind));
        }
        if let (Op::WithCap { .. }, _) = (op, ok) {}
    }

    fn check_cmp(&mut self, pool: &Pool, out: &mut Vec<Viol>) {
        let items: Vec<(&LeanString, &str)> = (0..NSLOTS)
            .filter_map(|i| match (pool.slots[i].as_ref(), pool.model[i].as_ref()) {
                (Some(s), Some(m)) => Some((s, m.as_str())),
                _ => None,
            })
            .collect();
        self.cov.mon("cmp-pairs", items.len() >= 2);
        for (a, ma) in &items {
            if let Err(e) = cmpmon::check_single(a, ma) {
                Self::viol(out, 17, "cmp-single", e);
                return;
            }
        }
        for i in 0..items.len() {
            for j in 0..items.len() {
                let (a, ma) = items[i];
                let (b, mb) = items[j];
                if let Err(e) = cmpmon::check_pair(a, ma, b, mb) {
                    Self::viol(out, 17, "cmp-pairs", e);
                    return;
                }
                if i < j && ma == mb && raw_words(a) != raw_words(b) {
                    let sig = mix(kind_of(a) as u64, mix(kind_of(b) as u64, mix(len_class(ma.len()), (a.capacity() == b.capacity()) as u64)));
                    self.cov.hit(17, sig, || {
                        format!("equal text {:?} held as {:?}(cap {}) and {:?}(cap {})", &ma[..ma.floor_char_boundary(24)], kind_of(a), a.capacity(), kind_of(b), b.capacity())
                    });
                }
            }
        }
        if let Err(e) = cmpmon::check_maps(&items) {
            Self::viol(out, 17, "cmp-maps", e);
        }
    }
}

/// needed capacity exceeds what any allocation can provide (2^56-1 on 64-bit) or overflows
pub fn size_exceeds_max(op: &Op, model_before: Option<&str>) -> bool {
    let len = model_before.map(|m| m.len()).unwrap_or(0);
    let max = MAX_CAP;
    match op {
        Op::Reserve { n, .. } => len.checked_add(*n).map(|x| x > max).unwrap_or(true),
        Op::WithCap { n, .. } => *n > max,
        Op::Collect { hint: Some(h), .. } => *h > max,
        Op::Extend { hint: Some(h), .. } => len.checked_add(*h).map(|x| x > max).unwrap_or(true),
        _ => false,
    }
}

/// If `now` equals `before` + a prefix of the units (chars or items), returns that text.
fn prefix_state(before: &str, kind: ItemKind, items: &[String], now: Option<&[u8]>) -> Option<String> {
    let now = now?;
    let mut s = before.to_string();
    if s.as_bytes() == now {
        return Some(s);
    }
    match kind {
        ItemKind::Char | ItemKind::CharRef => {
            for it in items {
                for c in it.chars() {
                    s.push(c);
                    if s.as_bytes() == now {
                        return Some(s);
                    }
                }
            }
        }
        _ => {
            for it in items {
                s.push_str(it);
                if s.as_bytes() == now {
                    return Some(s);
                }
            }
        }
    }
    None
}

pub fn float_roundtrip(v: &Tls, text: &str) -> Result<(), String> {
    match v {
        Tls::F64(b) => {
            let x = f64::from_bits(*b);
            match text.parse::<f64>() {
                Ok(y) if (x.is_nan() && y.is_nan()) || y.to_bits() == x.to_bits() => Ok(()),
                other => Err(format!("f64 {:#x} -> {:?} parses back as {:?}", b, text, other)),
            }
        }
        Tls::F32(b) => {
            let x = f32::from_bits(*b);
            match text.parse::<f32>() {
                Ok(y) if (x.is_nan() && y.is_nan()) || y.to_bits() == x.to_bits() => Ok(()),
                other => Err(format!("f32 {:#x} -> {:?} parses back as {:?}", b, text, other)),
            }
        }
        _ => Ok(()),
    }
}
