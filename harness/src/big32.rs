//! Engine `big32`: texts and capacities around 2^24 bytes.
//!
//! On 32-bit targets a heap handle keeps its length in three bytes of its second word; texts of
//! 2^24-1 bytes or more switch the buffer to a different layout (an extra length word in front of
//! the reference count, shared by every handle of the buffer), and capacities above 2^24-2 switch
//! the allocation layout.  None of that code runs on a 64-bit host, and the explorer's monitors
//! (UTF-8 validation, hashing, per-character loops) are far too slow to interpret on 16 MiB texts,
//! so this engine keeps to operations and oracles that are O(1) interpreted steps plus
//! memcpy/memcmp intrinsics: every live handle is compared with its `String` model after every
//! step, reference counts are compared with the number of live handles that point at the same
//! bytes, the allocator shim's live-block count with the number of distinct heap buffers, and the
//! capacity rules of C11-C13 are evaluated around the boundary.  It runs for every pointer width
//! (on 64-bit hosts it simply is a large-text workload); the i686 Miri flavour is where it reaches
//! the length-on-heap code.

use crate::explore::Viol;
use crate::ops::{INLINE_CAP, Kind, kind_of, panic_msg, register_static, static_text};
use crate::shim;
use crate::util::*;
use crate::{Args, emit_viol_case, stat_props};
use lean_string::LeanString;
use std::collections::BTreeMap;
use std::panic::{AssertUnwindSafe, catch_unwind};

/// largest length / capacity a 32-bit heap handle stores in its own words
pub const B: usize = (1 << 24) - 2;
const NS: usize = 5;

#[derive(Clone, Debug)]
enum BOp {
    FromStr { t: usize, len: usize },
    FromString { t: usize, len: usize, slack: usize },
    WithCap { t: usize, n: usize, text: String },
    Static { t: usize, len: usize },
    Clone { t: usize, src: usize },
    CloneFrom { t: usize, src: usize },
    Drop { t: usize },
    Push { t: usize, c: char },
    PushStr { t: usize, s: String },
    Pop { t: usize },
    Truncate { t: usize, n: usize },
    Insert { t: usize, i: usize, c: char },
    InsertStr { t: usize, i: usize, s: String },
    Remove { t: usize, i: usize },
    Clear { t: usize },
    Reserve { t: usize, n: usize, plain: bool },
    ShrinkTo { t: usize, n: usize },
    ShrinkFit { t: usize },
    Retain { t: usize, salt: u64 },
    ExtendChars { t: usize, s: String },
}

impl BOp {
    fn show(&self) -> String {
        match self {
            BOp::PushStr { t, s } if s.len() > 40 => format!("PushStr {{ t: {t}, s: <{} bytes> }}", s.len()),
            BOp::InsertStr { t, i, s } if s.len() > 40 => format!("InsertStr {{ t: {t}, i: {i}, s: <{} bytes> }}", s.len()),
            o => format!("{o:?}"),
        }
    }
    fn tag(&self) -> &'static str {
        match self {
            BOp::FromStr { .. } => "from_str",
            BOp::FromString { .. } => "from_string",
            BOp::WithCap { .. } => "with_capacity",
            BOp::Static { .. } => "from_static_str",
            BOp::Clone { .. } => "clone",
            BOp::CloneFrom { .. } => "clone_from",
            BOp::Drop { .. } => "drop",
            BOp::Push { .. } => "push",
            BOp::PushStr { .. } => "push_str",
            BOp::Pop { .. } => "pop",
            BOp::Truncate { .. } => "truncate",
            BOp::Insert { .. } => "insert",
            BOp::InsertStr { .. } => "insert_str",
            BOp::Remove { .. } => "remove",
            BOp::Clear { .. } => "clear",
            BOp::Reserve { .. } => "reserve",
            BOp::ShrinkTo { .. } => "shrink_to",
            BOp::ShrinkFit { .. } => "shrink_to_fit",
            BOp::Retain { .. } => "retain",
            BOp::ExtendChars { .. } => "extend",
        }
    }
    fn target(&self) -> usize {
        match self {
            BOp::FromStr { t, .. }
            | BOp::FromString { t, .. }
            | BOp::WithCap { t, .. }
            | BOp::Static { t, .. }
            | BOp::Clone { t, .. }
            | BOp::CloneFrom { t, .. }
            | BOp::Drop { t }
            | BOp::Push { t, .. }
            | BOp::PushStr { t, .. }
            | BOp::Pop { t }
            | BOp::Truncate { t, .. }
            | BOp::Insert { t, .. }
            | BOp::InsertStr { t, .. }
            | BOp::Remove { t, .. }
            | BOp::Clear { t }
            | BOp::Reserve { t, .. }
            | BOp::ShrinkTo { t, .. }
            | BOp::ShrinkFit { t }
            | BOp::Retain { t, .. }
            | BOp::ExtendChars { t, .. } => *t,
        }
    }
}

#[derive(Clone, Copy, Debug, PartialEq)]
struct Snap {
    ptr: usize,
    len: usize,
    cap: usize,
    kind: Kind,
    rc: Option<usize>,
}

fn snap(s: &LeanString) -> Snap {
    Snap { ptr: s.as_ptr() as usize, len: s.len(), cap: s.capacity(), kind: kind_of(s), rc: s.verif_refcount() }
}

/// class of a length / capacity relative to the 2^24 boundary
fn bclass(n: usize) -> u64 {
    if n <= INLINE_CAP {
        0
    } else if n + 4096 < B {
        1
    } else if n < B {
        2
    } else if n == B {
        3
    } else if n == B + 1 {
        4
    } else {
        5
    }
}

struct Eng {
    h: Vec<Option<LeanString>>,
    m: Vec<Option<String>>,
    block: String,
    base: String,
    seed: u64,
    decides: Vec<usize>,
    log: Vec<String>,
    nviol: u64,
    per_monitor: BTreeMap<(usize, &'static str), u64>,
    evals: BTreeMap<usize, u64>,
    sigs: BTreeMap<usize, SigSet>,
    samples: BTreeMap<usize, Vec<String>>,
    counters: BTreeMap<String, u64>,
    steps: u64,
    case: String,
    broken: bool,
}

impl Eng {
    fn viol(&mut self, prop: usize, monitor: &'static str, msg: String) {
        self.broken = true;
        let c = self.per_monitor.entry((prop, monitor)).or_insert(0);
        *c += 1;
        self.nviol += 1;
        if *c <= 3 {
            let tail: Vec<String> = self.log.iter().rev().take(40).rev().cloned().collect();
            let msg = format!("step {} {}: {} | history: {}", self.log.len().saturating_sub(1), self.log.last().cloned().unwrap_or_default(), msg, tail.join("; "));
            emit_viol_case("big32", &Viol { prop, monitor, msg }, self.seed, &self.case, &[]);
        }
    }
    fn hit(&mut self, prop: usize, sig: u64, sample: impl FnOnce() -> String) {
        *self.evals.entry(prop).or_insert(0) += 1;
        if self.sigs.entry(prop).or_default().insert(sig) {
            let v = self.samples.entry(prop).or_default();
            if v.len() < 8 {
                v.push(sample());
            }
        }
    }
    fn count(&mut self, k: &str) {
        *self.counters.entry(k.to_string()).or_insert(0) += 1;
    }

    fn text_of(&self, len: usize) -> &str {
        &self.base[..self.base.floor_char_boundary(len.min(self.base.len()))]
    }
    /// exactly `len` bytes
    fn exact_text(&self, len: usize) -> String {
        let p = self.base.floor_char_boundary(len);
        let mut s = String::with_capacity(len);
        s.push_str(&self.base[..p]);
        for _ in p..len {
            s.push('~');
        }
        s
    }

    /// all live handles against their models, reference counts against pointer identity, the
    /// allocator's live blocks against the distinct heap buffers
    fn check_all(&mut self, target: Option<usize>) {
        let mut bufs: Vec<(usize, usize)> = Vec::new(); // (ptr, handles)
        for i in 0..NS {
            let (Some(s), Some(m)) = (self.h[i].as_ref(), self.m[i].as_ref()) else {
                if self.h[i].is_some() != self.m[i].is_some() {
                    // the slots are Option<LeanString>: a stored string that reads back as None hit the niche
                    self.viol(20, "niche", format!("slot {i}: Some(string) of {} bytes reads back as None", self.m[i].as_ref().map(|m| m.len()).unwrap_or(0)));
                    self.viol(1, "model-eq", format!("slot {i}: handle present {} but model present {}", self.h[i].is_some(), self.m[i].is_some()));
                }
                continue;
            };
            let same = s.len() == m.len() && s.as_bytes() == m.as_bytes() && s.is_empty() == m.is_empty();
            let sn = snap(s);
            let last = crate::ops::raw_last_byte(s);
            let at = if same { None } else { first_diff(s.as_bytes(), m.as_bytes()) };
            let mlen = m.len();
            if last > 0xD1 {
                self.viol(20, "niche", format!("slot {i}: last byte {last:#x} of a live string lies in the niche range"));
            }
            self.hit(20, mix(0xB20, mix(sn.kind as u64, mix(bclass(sn.len), bclass(sn.cap)))), || format!("Some({:?} string, len {} cap {}) reads as Some, last byte {last:#x}", sn.kind, sn.len, sn.cap));
            if !same {
                let (p, mon) = if Some(i) == target { (1, "model-eq") } else { (2, "sibling-changed") };
                self.viol(p, mon, format!("slot {i}: len {} (model {}), first differing byte at {:?}", sn.len, mlen, at));
            }
            if sn.cap < sn.len {
                self.viol(11, "cap-ge-len", format!("slot {i}: capacity {} < len {}", sn.cap, sn.len));
            }
            if sn.len > INLINE_CAP && sn.kind == Kind::Inline {
                self.viol(1, "storage", format!("slot {i}: {} bytes reported inline", sn.len));
            }
            if sn.kind == Kind::Heap {
                match bufs.iter_mut().find(|(p, _)| *p == sn.ptr) {
                    Some(e) => e.1 += 1,
                    None => bufs.push((sn.ptr, 1)),
                }
            }
        }
        for i in 0..NS {
            if let Some(s) = self.h[i].as_ref() {
                if kind_of(s) == Kind::Heap {
                    let p = s.as_ptr() as usize;
                    let n = bufs.iter().find(|(q, _)| *q == p).map(|e| e.1).unwrap_or(0);
                    if s.verif_refcount() != Some(n) {
                        self.viol(3, "refcount", format!("slot {i}: reference count {:?} but {} live handle(s) point at these bytes", s.verif_refcount(), n));
                    }
                }
            }
        }
        if shim::mode() != shim::Mode::Off && shim::mode() != shim::Mode::Count {
            let live = shim::live_count();
            if live != bufs.len() {
                self.viol(3, "heap-accounting", format!("{} live allocation(s) but {} distinct heap buffer(s) are reachable from live handles", live, bufs.len()));
            }
        }
        for e in shim::take_errors() {
            self.viol(3, "allocator-contract", e);
        }
        let live = bufs.len() as u64;
        self.hit(3, mix(0xB3, mix(live, bufs.iter().map(|b| b.1 as u64).max().unwrap_or(0))), || format!("{live} buffers live, all reference counts equal the handles pointing at them"));
    }

    fn apply(&mut self, op: BOp) {
        self.steps += 1;
        self.log.push(op.show());
        let t = op.target();
        let before: Vec<Option<Snap>> = self.h.iter().map(|s| s.as_ref().map(snap)).collect();
        let bt = before[t];
        let owned_before = bt.map(|b| b.kind == Kind::Inline || (b.kind == Kind::Heap && b.rc == Some(1) && !(0..NS).any(|j| j != t && before[j].map(|x| x.kind == Kind::Heap && x.ptr == b.ptr).unwrap_or(false)))).unwrap_or(false);
        shim::clear_log();
        let c0 = shim::counts();
        let mut ok = true;
        let mut grow: Option<usize> = None;
        let r = catch_unwind(AssertUnwindSafe(|| -> Result<(), String> {
            match &op {
                BOp::FromStr { t, len } => {
                    let text = self.exact_text(*len);
                    self.h[*t] = Some(LeanString::from(text.as_str()));
                    self.m[*t] = Some(text);
                }
                BOp::FromString { t, len, slack } => {
                    let text = self.exact_text(*len);
                    let mut s = String::with_capacity(text.len() + slack);
                    s.push_str(&text);
                    self.m[*t] = Some(text);
                    self.h[*t] = Some(LeanString::from(s));
                }
                BOp::WithCap { t, n, text } => {
                    let mut s = LeanString::with_capacity(*n);
                    if s.capacity() < *n {
                        return Err(format!("C11|with-capacity|with_capacity({n}) has capacity {}", s.capacity()));
                    }
                    s.push_str(text);
                    self.h[*t] = Some(s);
                    self.m[*t] = Some(text.clone());
                }
                BOp::Static { t, len } => {
                    let text = self.exact_text(*len);
                    let id = register_static(&text);
                    let st = static_text(id);
                    let s = LeanString::from_static_str(st);
                    if s.as_ptr() != st.as_ptr() && st.len() > INLINE_CAP {
                        return Err("C10|static-borrowed|from_static_str does not point at the caller's bytes".into());
                    }
                    self.h[*t] = Some(s);
                    self.m[*t] = Some(text);
                }
                BOp::Clone { t, src } => {
                    let c = self.h[*src].as_ref().unwrap().clone();
                    self.h[*t] = Some(c);
                    self.m[*t] = self.m[*src].clone();
                }
                BOp::CloneFrom { t, src } => {
                    let mut tgt = self.h[*t].take().unwrap();
                    let c1 = shim::counts();
                    tgt.clone_from(self.h[*src].as_ref().unwrap());
                    let d = shim::delta(c1, shim::counts());
                    self.h[*t] = Some(tgt);
                    self.m[*t] = self.m[*src].clone();
                    if d.alloc + d.realloc != 0 {
                        return Err(format!("C08|clone-no-alloc|clone_from made {} allocation request(s)", d.alloc + d.realloc));
                    }
                }
                BOp::Drop { t } => {
                    self.h[*t] = None;
                    self.m[*t] = None;
                }
                BOp::Push { t, c } => {
                    self.h[*t].as_mut().unwrap().push(*c);
                    self.m[*t].as_mut().unwrap().push(*c);
                }
                BOp::PushStr { t, s } => {
                    self.h[*t].as_mut().unwrap().push_str(s);
                    self.m[*t].as_mut().unwrap().push_str(s);
                }
                BOp::Pop { t } => {
                    let a = self.h[*t].as_mut().unwrap().pop();
                    let b = self.m[*t].as_mut().unwrap().pop();
                    if a != b {
                        return Err(format!("C01|return-value|pop returned {a:?}, String returns {b:?}"));
                    }
                }
                BOp::Truncate { t, n } => {
                    self.h[*t].as_mut().unwrap().truncate(*n);
                    self.m[*t].as_mut().unwrap().truncate(*n);
                }
                BOp::Insert { t, i, c } => {
                    self.h[*t].as_mut().unwrap().insert(*i, *c);
                    self.m[*t].as_mut().unwrap().insert(*i, *c);
                }
                BOp::InsertStr { t, i, s } => {
                    self.h[*t].as_mut().unwrap().insert_str(*i, s);
                    self.m[*t].as_mut().unwrap().insert_str(*i, s);
                }
                BOp::Remove { t, i } => {
                    let a = self.h[*t].as_mut().unwrap().remove(*i);
                    let b = self.m[*t].as_mut().unwrap().remove(*i);
                    if a != b {
                        return Err(format!("C01|return-value|remove({i}) returned {a:?}, String returns {b:?}"));
                    }
                }
                BOp::Clear { t } => {
                    self.h[*t].as_mut().unwrap().clear();
                    self.m[*t].as_mut().unwrap().clear();
                }
                BOp::Reserve { t, n, plain } => {
                    if *plain {
                        self.h[*t].as_mut().unwrap().reserve(*n);
                    } else if self.h[*t].as_mut().unwrap().try_reserve(*n).is_err() {
                        ok = false;
                    }
                }
                BOp::ShrinkTo { t, n } => self.h[*t].as_mut().unwrap().shrink_to(*n),
                BOp::ShrinkFit { t } => self.h[*t].as_mut().unwrap().shrink_to_fit(),
                BOp::Retain { t, salt } => {
                    let sl = *salt;
                    self.h[*t].as_mut().unwrap().retain(|c| mix(sl, c as u64) % 4 != 0);
                    self.m[*t].as_mut().unwrap().retain(|c| mix(sl, c as u64) % 4 != 0);
                }
                BOp::ExtendChars { t, s } => {
                    self.h[*t].as_mut().unwrap().extend(s.chars());
                    self.m[*t].as_mut().unwrap().extend(s.chars());
                }
            }
            Ok(())
        }));
        let counting = shim::mode() != shim::Mode::Off;
        let d = shim::delta(c0, shim::counts());
        let mut panicked = None;
        match r {
            Ok(Ok(())) => {}
            Ok(Err(e)) => {
                let mut it = e.splitn(3, '|');
                let p: usize = it.next().unwrap()[1..].parse().unwrap();
                let mon: &'static str = match it.next().unwrap() {
                    "with-capacity" => "with-capacity",
                    "static-borrowed" => "static-borrowed",
                    "clone-no-alloc" => "clone-no-alloc",
                    _ => "return-value",
                };
                let msg = it.next().unwrap().to_string();
                self.viol(p, mon, msg);
            }
            Err(p) => {
                ok = false;
                panicked = Some(panic_msg(p));
            }
        }
        if let Some(pm) = panicked {
            // only an oversized plain reserve may panic here (everything else uses valid arguments)
            let allowed = matches!(op, BOp::Reserve { plain: true, n, .. } if n > (1 << 27));
            if !allowed {
                self.viol(1, "unexpected-panic", format!("the call panicked: {pm:?}"));
            } else {
                self.count("plain_reserve_panicked_cleanly");
            }
        }
        let after_t = self.h[t].as_ref().map(snap);

        // failed size requests leave everything as it was (C06)
        if !ok {
            if let (Some(b), Some(a)) = (bt, after_t) {
                if a != b {
                    self.viol(6, "failed-call-unchanged", format!("a failed reservation changed the target: {b:?} -> {a:?}"));
                }
                // (memory kept by a failed call shows up in the heap accounting of check_all)
                self.hit(6, mix(0xB6, mix(b.kind as u64, bclass(b.len))), || format!("{} failed on {:?} len {} and changed nothing", op.show(), b.kind, b.len));
            }
        }

        // op-specific rules
        match (&op, bt, after_t) {
            (BOp::Clone { src, .. }, _, Some(a)) => {
                let s = before[*src].unwrap();
                if counting && d.total() != 0 {
                    self.viol(8, "clone-no-alloc", format!("clone of a {:?} string of {} bytes made {} allocator request(s)", s.kind, s.len, d.total()));
                }
                if s.kind != Kind::Inline && a.ptr != s.ptr {
                    self.viol(8, "clone-same-bytes", format!("clone of a {:?} string points at different bytes", s.kind));
                }
                if s.kind == Kind::Heap && a.rc != s.rc.map(|x| x + 1) {
                    self.viol(8, "clone-same-bytes", format!("reference count {:?} -> {:?} across clone", s.rc, a.rc));
                }
                self.hit(8, mix(0xB8, mix(s.kind as u64, mix(bclass(s.len), bclass(s.cap)))), || format!("clone of {:?} len {} cap {}: no allocation, same bytes", s.kind, s.len, s.cap));
            }
            (BOp::CloneFrom { src, .. }, _, Some(a)) => {
                let s = before[*src].unwrap();
                if s.kind != Kind::Inline && a.ptr != s.ptr {
                    self.viol(8, "clone-same-bytes", format!("clone_from of a {:?} string points at different bytes", s.kind));
                }
                self.hit(8, mix(0xB9, mix(s.kind as u64, mix(bclass(s.len), bt.map(|b| b.kind as u64).unwrap_or(9)))), || format!("clone_from {:?} len {} into {:?}", s.kind, s.len, bt.map(|b| b.kind)));
            }
            (BOp::FromStr { .. } | BOp::FromString { .. }, _, Some(a)) => {
                if a.len > INLINE_CAP {
                    let exact = matches!(op, BOp::FromStr { .. });
                    if (counting && (d.alloc != 1 || d.realloc != 0)) || a.cap != a.len {
                        self.viol(9, "construct-one-exact-allocation", format!("{}: {} alloc / {} realloc, capacity {} for {} bytes", op.tag(), d.alloc, d.realloc, a.cap, a.len));
                    }
                    self.hit(9, mix(0xB90, mix(bclass(a.len), exact as u64)), || format!("{} of {} bytes: one allocation, capacity {}", op.tag(), a.len, a.cap));
                }
            }
            (BOp::Static { .. }, _, Some(a)) => {
                if counting && d.total() != 0 {
                    self.viol(10, "static-borrowed", format!("from_static_str made {} allocator request(s)", d.total()));
                }
                self.hit(10, mix(0xBA, bclass(a.len)), || format!("from_static_str of {} bytes borrows", a.len));
            }
            (BOp::Pop { .. } | BOp::Truncate { .. } | BOp::Clear { .. }, Some(b), Some(a)) if b.kind == Kind::Static => {
                if d.total() != 0 || a.ptr != b.ptr || a.kind == Kind::Heap {
                    self.viol(10, "static-readonly-op", format!("{} on a static string: {} requests, moved {}, {:?}", op.tag(), d.total(), a.ptr != b.ptr, a.kind));
                }
                self.hit(10, mix(0xBB, mix(bclass(b.len), bclass(a.len))), || format!("{} on static len {} -> {}: still borrowed", op.tag(), b.len, a.len));
            }
            _ => {}
        }
        if let (Some(b), Some(a), true) = (bt, after_t, ok) {
            let add = match &op {
                BOp::Push { c, .. } | BOp::Insert { c, .. } => Some(c.len_utf8()),
                BOp::PushStr { s, .. } | BOp::InsertStr { s, .. } => Some(s.len()),
                BOp::Reserve { n, .. } => Some(*n),
                _ => None,
            };
            if b.kind == Kind::Static && matches!(op, BOp::Push { .. } | BOp::Insert { .. } | BOp::Remove { .. } | BOp::Reserve { .. }) {
                if a.kind == Kind::Static {
                    self.viol(10, "static-first-write", format!("{} left the handle in borrowed static storage", op.tag()));
                }
                self.hit(10, mix(0xBC, mix(bclass(b.len), a.kind as u64)), || format!("{} on static len {} -> {:?} cap {}", op.tag(), b.len, a.kind, a.cap));
            }
            if let BOp::Reserve { n, .. } = &op {
                if a.cap < b.len.saturating_add(*n) {
                    self.viol(11, "reserve-post", format!("reserve({n}) ok but capacity {} < len {} + {n}", a.cap, b.len));
                }
                if a.kind == Kind::Static || (a.kind == Kind::Heap && a.rc != Some(1)) {
                    self.viol(11, "reserve-post", format!("after reserve the handle does not own its storage exclusively ({:?}, rc {:?})", a.kind, a.rc));
                }
                self.hit(11, mix(0xBD, mix(bclass(b.cap), mix(bclass(a.cap), b.kind as u64))), || format!("reserve({n}) on {:?} len {} cap {} -> cap {}", b.kind, b.len, b.cap, a.cap));
            }
            if let (Some(add), false) = (add, matches!(op, BOp::Reserve { .. })) {
                let need = b.len + add;
                if owned_before && need <= b.cap {
                    if d.total() != 0 || a.ptr != b.ptr {
                        self.viol(11, "append-within-capacity", format!("{}: len {} -> {} fits capacity {} of an exclusively owned string but {} allocator request(s), text moved: {}", op.tag(), b.len, need, b.cap, d.total(), a.ptr != b.ptr));
                    }
                    self.hit(11, mix(0xBE, mix(bclass(b.len), mix(bclass(need), bclass(b.cap)))), || format!("{} {} -> {} within capacity {}", op.tag(), b.len, need, b.cap));
                }
            }
            if let Some(add) = add {
                let need = b.len.saturating_add(add);
                if need > b.cap && a.kind == Kind::Heap && b.kind != Kind::Static {
                    grow = Some(need);
                    let amort = b.len + b.len / 2;
                    if a.cap < amort || a.cap < need || a.cap > amort.max(need) {
                        self.viol(12, "growth", format!("{}: len {} cap {} needs {} -> new capacity {} (expected max({}, {}))", op.tag(), b.len, b.cap, need, a.cap, amort, need));
                    }
                    self.hit(12, mix(0xBF, mix(bclass(b.cap), mix(bclass(a.cap), (b.rc == Some(1)) as u64))), || format!("{} grows len {} cap {} -> cap {}", op.tag(), b.len, b.cap, a.cap));
                }
            }
            let shrink_m = match &op {
                BOp::ShrinkTo { n, .. } => Some(*n),
                BOp::ShrinkFit { .. } => Some(0),
                _ => None,
            };
            if let Some(m) = shrink_m {
                let len = b.len;
                if a.cap > b.cap.max(INLINE_CAP) || a.cap < len || (b.cap >= m && a.cap < m) {
                    self.viol(13, "shrink", format!("shrink_to({m}): capacity {} -> {} with len {}", b.cap, a.cap, len));
                }
                let target = len.max(m);
                if b.kind == Kind::Heap && b.cap > target {
                    if target > INLINE_CAP {
                        if a.cap != target || a.kind != Kind::Heap {
                            self.viol(13, "shrink", format!("shrink_to({m}) on heap string (rc {:?}) len {} cap {}: capacity is {} ({:?}), expected exactly {}", b.rc, len, b.cap, a.cap, a.kind, target));
                        }
                    } else if a.kind != Kind::Inline {
                        self.viol(13, "shrink", format!("shrink_to({m}): len {} fits inline but storage is {:?}", len, a.kind));
                    }
                }
                self.hit(13, mix(0xC0, mix(bclass(b.cap), mix(bclass(a.cap), mix(bclass(len), (b.rc == Some(1)) as u64)))), || format!("shrink_to({m}) on {:?} rc {:?} len {} cap {} -> cap {} {:?}", b.kind, b.rc, len, b.cap, a.cap, a.kind));
            }
        }
        let _ = grow;
        // coverage of the state space this engine is about: (op, length class before/after, capacity class, shared)
        if let Some(a) = after_t {
            let b = bt.unwrap_or(a);
            let shared = b.rc.map(|x| x > 1).unwrap_or(false);
            let sig = mix(tag_hash(op.tag()), mix(bclass(b.len), mix(bclass(a.len), mix(bclass(b.cap), mix(bclass(a.cap), shared as u64)))));
            for p in [1usize, 2] {
                self.hit(p, sig, || format!("{} on {:?}{} len {} cap {} -> len {} cap {}", op.tag(), b.kind, if shared { " (shared)" } else { "" }, b.len, b.cap, a.len, a.cap));
            }
            if a.len > B || b.len > B {
                self.count("steps_with_length_above_2^24-2");
            }
            if a.cap > B && b.cap <= B || a.cap <= B && b.cap > B {
                self.count("capacity_crossed_2^24-2");
            }
            if shared && (b.len > B) {
                self.count("mutations_of_shared_buffer_with_length_above_2^24-2");
            }
        }
        self.check_all(Some(t));
    }

    fn end_case(&mut self) {
        for i in 0..NS {
            self.log.push(format!("Drop {{ t: {i} }}"));
            self.h[i] = None;
            self.m[i] = None;
            self.check_all(None);
        }
        if shim::mode() != shim::Mode::Off && shim::mode() != shim::Mode::Count && shim::live_count() != 0 {
            self.viol(3, "heap-accounting", format!("{} allocation(s) still live after every handle was dropped", shim::live_count()));
            shim::forget_live();
        }
        self.log.clear();
    }

    fn abandon(&mut self) {
        for i in 0..NS {
            if let Some(s) = self.h[i].take() {
                std::mem::forget(s);
            }
            self.m[i] = None;
        }
        shim::forget_live();
        let _ = shim::take_errors();
        self.log.clear();
        self.broken = false;
    }
}

/// first differing position, by bisection over memcmp (a byte loop over 16 MiB is too slow to interpret)
fn first_diff(a: &[u8], b: &[u8]) -> Option<usize> {
    let n = a.len().min(b.len());
    if a[..n] == b[..n] {
        return if a.len() == b.len() { None } else { Some(n) };
    }
    let (mut lo, mut hi) = (0usize, n); // a[..lo] == b[..lo], a[..hi] != b[..hi]
    while hi - lo > 1 {
        let mid = lo + (hi - lo) / 2;
        if a[lo..mid] == b[lo..mid] { lo = mid } else { hi = mid }
    }
    Some(lo)
}

fn tag_hash(t: &str) -> u64 {
    hash_bytes(3, t.as_bytes())
}

fn make_block(r: &mut Rng) -> String {
    let mut s = String::new();
    while s.len() < 4093 {
        s.push(gen_char(r));
    }
    s
}

/// `len`-ish bytes (at least len + 70000) of non-uniform text: blocks with distinct markers
fn make_base(block: &str, len: usize) -> String {
    let mut s = String::with_capacity(len + 80000);
    let half = (len / 2) / block.len();
    s.push_str("<head>");
    s.push_str(&block.repeat(half));
    s.push_str("<middle marker ∆>");
    while s.len() < len + 70000 {
        let k = ((len + 70000 - s.len()) / block.len()).clamp(1, 1 << 12);
        s.push_str(&block.repeat(k));
        s.push_str("<§>");
    }
    s
}

fn small_text(r: &mut Rng) -> String {
    let n = r.below(12);
    gen_text(r, n)
}

fn pick_index(r: &mut Rng, m: &str) -> usize {
    let len = m.len();
    let raw = match r.below(6) {
        0 => 0,
        1 => len,
        2 => len / 2,
        3 => r.below(len.min(64) + 1),
        4 => len - r.below(len.min(64) + 1),
        _ => r.below(len + 1),
    };
    m.floor_char_boundary(raw)
}

pub fn engine_big32(a: &Args) {
    crate::install_shim(a);
    let seed = a.num("seed", 1);
    let cases = a.num("cases", 6);
    let steps = a.num("steps", 30) as usize;
    let first_case = a.num("first-case", 0);
    let mut r = Rng::new(seed);
    let block = make_block(&mut r);
    let base = make_base(&block, B + 2);
    let mut e = Eng {
        h: (0..NS).map(|_| None).collect(),
        m: (0..NS).map(|_| None).collect(),
        block,
        base,
        seed,
        decides: stat_props(a),
        log: Vec::new(),
        nviol: 0,
        per_monitor: Default::default(),
        evals: Default::default(),
        sigs: Default::default(),
        samples: Default::default(),
        counters: Default::default(),
        steps: 0,
        case: String::new(),
        broken: false,
    };
    for case in first_case..first_case + cases {
        let mut cr = Rng::new(mix(seed, 0xB16 + case));
        // `--kinds 4,6` restricts the starting states (the release-profile shard dwells on the shared
        // length-on-heap states, where the crate's debug assertions would otherwise intervene)
        let kind = match a.get("kinds") {
            Some(list) => {
                let ks: Vec<u64> = list.split(',').filter_map(|x| x.parse().ok()).collect();
                if ks.is_empty() { (case + seed) % 7 } else { ks[((case + seed) % ks.len() as u64) as usize] % 7 }
            }
            None => (case + seed) % 7,
        };
        e.case = format!("case={case} kind={kind}");
        if a.flag("announce") {
            emit(&J::new().s("t", "hist").s("engine", "big32").s("case", &e.case).render());
        }
        let k = cr.below(6);
        let setup: Vec<BOp> = match kind {
            // length crosses the boundary by appending
            0 => vec![BOp::FromStr { t: 0, len: B - k }],
            // capacity crosses the boundary by growth
            1 => vec![BOp::WithCap { t: 0, n: B - 40 - k, text: small_text(&mut cr) }, BOp::PushStr { t: 0, s: e.text_of(B - 400).to_string() }],
            // large capacity, small text
            2 => vec![BOp::WithCap { t: 0, n: B + 1 + k, text: small_text(&mut cr) }],
            // the longest static text a 32-bit handle can borrow
            3 => vec![BOp::Static { t: 0, len: B + 1 }, BOp::Clone { t: 1, src: 0 }],
            // length on the heap, shared
            4 => vec![BOp::FromString { t: 0, len: B + 1 + 40 * k, slack: 0 }, BOp::Clone { t: 1, src: 0 }, BOp::Clone { t: 2, src: 0 }],
            // owned source with slack at the boundary
            5 => vec![BOp::FromString { t: 0, len: B - 1 + k.min(3), slack: 1 + k }, BOp::Clone { t: 1, src: 0 }],
            // one below the boundary, shared, then pushed over it
            _ => vec![BOp::FromStr { t: 0, len: B }, BOp::Clone { t: 1, src: 0 }],
        };
        for op in setup {
            e.apply(op);
            if e.broken {
                break;
            }
        }
        let mut n = 0;
        while !e.broken && n < steps {
            n += 1;
            let live: Vec<usize> = (0..NS).filter(|&i| e.h[i].is_some()).collect();
            let free: Vec<usize> = (0..NS).filter(|&i| e.h[i].is_none()).collect();
            if live.is_empty() {
                break;
            }
            let t = *cr.pick(&live);
            let (mlen, mcap) = (e.m[t].as_ref().unwrap().len(), e.h[t].as_ref().unwrap().capacity());
            let roll = cr.below(100);
            let op = if roll < 12 && !free.is_empty() {
                BOp::Clone { t: free[0], src: t }
            } else if roll < 17 && live.len() > 1 {
                BOp::Drop { t }
            } else if roll < 22 && live.len() > 1 {
                let src = *cr.pick(&live);
                if src == t { BOp::Pop { t } } else { BOp::CloneFrom { t, src } }
            } else if roll < 34 {
                BOp::Push { t, c: gen_char(&mut cr) }
            } else if roll < 44 {
                // appends aimed at the boundary
                let s = if mlen < B && B - mlen < 6000 && cr.chance(2, 3) {
                    let gap = B - mlen + cr.below(3);
                    "x".repeat(gap.saturating_sub(cr.below(2)))
                } else if cr.chance(1, 3) {
                    e.block[..e.block.floor_char_boundary(cr.below(3000))].to_string()
                } else {
                    small_text(&mut cr)
                };
                BOp::PushStr { t, s }
            } else if roll < 52 {
                BOp::Pop { t }
            } else if roll < 62 {
                let cands = [mlen.saturating_sub(cr.below(8)), B + 1, B, B - 1, B - 5, cr.below(40), mlen, mlen / 2];
                let n = (*cr.pick(&cands)).min(mlen);
                BOp::Truncate { t, n: e.m[t].as_ref().unwrap().floor_char_boundary(n) }
            } else if roll < 68 {
                let i = pick_index(&mut cr, e.m[t].as_ref().unwrap());
                if cr.chance(1, 2) { BOp::Insert { t, i, c: gen_char(&mut cr) } } else { BOp::InsertStr { t, i, s: small_text(&mut cr) } }
            } else if roll < 73 && mlen > 0 {
                let m = e.m[t].as_ref().unwrap();
                let mut i = pick_index(&mut cr, m);
                if i >= m.len() {
                    i = m.floor_char_boundary(m.len() - 1);
                }
                BOp::Remove { t, i }
            } else if roll < 76 {
                BOp::Clear { t }
            } else if roll < 86 {
                let cands = [0usize, 1, cr.below(64), (B + 1).saturating_sub(mlen), B.saturating_sub(mlen), (B + 2).saturating_sub(mlen), mcap.saturating_sub(mlen) + 1, usize::MAX, usize::MAX - mlen, (isize::MAX as usize) - mlen, 1 << 30];
                let n = *cr.pick(&cands);
                BOp::Reserve { t, n, plain: cr.chance(1, 4) }
            } else if roll < 93 {
                let cands = [0usize, mlen, mlen + 1, B - 1, B, B + 1, B + 2, mcap.saturating_sub(1), mcap, cr.below(64)];
                BOp::ShrinkTo { t, n: *cr.pick(&cands) }
            } else if roll < 96 {
                BOp::ShrinkFit { t }
            } else if roll < 98 && mlen <= 300 {
                BOp::Retain { t, salt: cr.next() }
            } else {
                BOp::ExtendChars { t, s: small_text(&mut cr) }
            };
            // keep memory bounded: no further growth of texts that are already well over the boundary
            let op = match op {
                BOp::PushStr { t, s } if mlen > B + 60000 => BOp::Truncate { t, n: e.m[t].as_ref().unwrap().floor_char_boundary(B - s.len().min(9)) },
                o => o,
            };
            e.apply(op);
        }
        if e.broken {
            e.abandon();
        } else {
            e.end_case();
            if e.broken {
                e.abandon();
            }
        }
    }
    if let Some(i) = crate::ops::statics_damaged_all() {
        emit_viol_case("big32", &Viol { prop: 10, monitor: "static-pristine", msg: format!("static text #{i} was modified") }, seed, "end of engine", &[]);
        e.nviol += 1;
    }
    // coverage for the property this run was asked about (first of --stat-props), or all of them
    let ask = e.decides.first().copied();
    let mut evals = 0u64;
    let mut sigs: Vec<String> = Vec::new();
    let mut samples: Vec<String> = Vec::new();
    for (p, n) in &e.evals {
        if ask.is_none() || ask == Some(*p) {
            evals += n;
            sigs.extend(e.sigs[p].iter().take(20000).map(|s| s.to_string()));
            samples.extend(e.samples.get(p).cloned().unwrap_or_default());
        }
    }
    let mut ctr: Vec<String> = e.counters.iter().map(|(k, v)| format!("{}:{}", jstr(&format!("big32:{k}")), v)).collect();
    ctr.push(format!("{}:{}", jstr("big32:steps"), e.steps));
    ctr.push(format!("{}:{}", jstr(&format!("big32:steps_pointer_width_{}", usize::BITS)), e.steps));
    let ec = J::new()
        .n("evals", evals)
        .raw("sigs", jarr(sigs))
        .raw("samples", jarr(samples.iter().take(8).map(|s| jstr(s))))
        .raw("counters", format!("{{{}}}", ctr.join(",")))
        .raw("info", "{}".into());
    emit(&J::new().s("t", "stat").s("engine", "big32").n("seed", seed).n("violations", e.nviol).raw("ecov", ec.render()).render());
}
