//! Operation vocabulary, pool of (LeanString, String model) pairs, and application of one op to
//! the model and to the real value.

use crate::shim::{self, Counts};
use crate::util::*;
use lean_string::{LeanString, ToLeanString};
use std::borrow::Cow;
use std::fmt::{self, Write as _};
use std::panic::{AssertUnwindSafe, catch_unwind};

pub const NSLOTS: usize = 8;
/// inline capacity: two machine words (16 on 64-bit, 8 on 32-bit targets)
pub const INLINE_CAP: usize = 2 * std::mem::size_of::<usize>();
pub const RESERVE_MSG: &str = "Cannot allocate memory to hold LeanString";
/// largest capacity/length a heap buffer can have (2^56-1 on 64-bit; on 32-bit the limit is the address space)
pub const MAX_CAP: usize = if usize::BITS >= 64 { ((1u64 << 56) - 1) as usize } else { usize::MAX - 64 };

#[derive(Clone, Copy, PartialEq, Eq, Debug, Hash, PartialOrd, Ord)]
pub enum Kind {
    Inline,
    Static,
    Heap,
}

pub fn kind_of(s: &LeanString) -> Kind {
    if s.is_heap_allocated() {
        Kind::Heap
    } else {
        let p = s.as_ptr() as usize;
        let base = s as *const LeanString as usize;
        if p >= base && p < base + std::mem::size_of::<LeanString>() { Kind::Inline } else { Kind::Static }
    }
}

pub fn raw_words(s: &LeanString) -> [usize; 2] {
    // reading the bytes of our own value
    unsafe { std::ptr::read(s as *const LeanString as *const [usize; 2]) }
}

pub fn raw_last_byte(s: &LeanString) -> u8 {
    let p = s as *const LeanString as *const u8;
    unsafe { *p.add(std::mem::size_of::<LeanString>() - 1) }
}

// ---------------------------------------------------------------------------------------------
// 'static texts owned by the harness (writable memory, so a stray write corrupts silently)

pub struct Statics {
    pub texts: Vec<&'static str>,
    pub pristine: Vec<String>,
}

static STATICS: std::sync::Mutex<Option<Statics>> = std::sync::Mutex::new(None);
pub const BASE_STATICS: usize = 9;

fn with_statics<R>(f: impl FnOnce(&mut Statics) -> R) -> R {
    let mut g = match STATICS.lock() {
        Ok(g) => g,
        Err(p) => p.into_inner(),
    };
    if g.is_none() {
        let src: Vec<String> = vec![
            "short".into(),
            "exactly16bytes!!".into(),
            "seventeen bytes!!".into(),
            "éighteen bytes €!".into(),
            "0123456789abcd€𝄞0123456789ab".into(),
            "abcdefghijklmnopqrstuvwxyzABCDEF".into(),
            "𝄞𝄞𝄞𝄞€€€€ééééaaaa𝄞𝄞€".into(),
            {
                let mut s = String::new();
                let mut r = Rng::new(77);
                while s.len() < 200 {
                    s.push(gen_char(&mut r));
                }
                s
            },
            "0123456789abcdeé€".into(),
        ];
        let mut st = Statics { texts: Vec::new(), pristine: Vec::new() };
        for s in src {
            st.pristine.push(s.clone());
            let leaked: &'static mut str = Box::leak(s.into_boxed_str());
            st.texts.push(&*leaked);
        }
        *g = Some(st);
    }
    f(g.as_mut().unwrap())
}

pub fn init_statics() {
    with_statics(|_| ());
}
pub fn static_text(id: usize) -> &'static str {
    with_statics(|s| s.texts[id])
}
pub fn static_pristine(id: usize) -> String {
    with_statics(|s| s.pristine[id].clone())
}
pub fn static_len(id: usize) -> usize {
    with_statics(|s| s.pristine[id].len())
}
/// Leaks `text` into writable memory and registers it as a harness-owned 'static text.
pub fn register_static(text: &str) -> usize {
    with_statics(|s| {
        if let Some(i) = s.pristine.iter().position(|p| p == text) {
            return i;
        }
        s.pristine.push(text.to_string());
        let leaked: &'static mut str = Box::leak(text.to_string().into_boxed_str());
        s.texts.push(&*leaked);
        s.texts.len() - 1
    })
}

/// index of the first (base or recently registered) static text whose bytes differ from the pristine copy
pub fn statics_damaged() -> Option<usize> {
    with_statics(|st| {
        let n = st.texts.len();
        for i in (0..BASE_STATICS.min(n)).chain(n.saturating_sub(3).max(BASE_STATICS)..n) {
            if st.texts[i].as_bytes() != st.pristine[i].as_bytes() {
                return Some(i);
            }
        }
        None
    })
}
pub fn statics_damaged_all() -> Option<usize> {
    with_statics(|st| (0..st.texts.len()).find(|&i| st.texts[i].as_bytes() != st.pristine[i].as_bytes()))
}

// ---------------------------------------------------------------------------------------------

#[derive(Clone, Copy, PartialEq, Eq, Debug, Hash)]
pub enum ItemKind {
    Char,
    CharRef,
    Str,
    String,
    BoxStr,
    Cow,
    Lean,
}
pub const ITEM_KINDS: [ItemKind; 7] = [
    ItemKind::Char,
    ItemKind::CharRef,
    ItemKind::Str,
    ItemKind::String,
    ItemKind::BoxStr,
    ItemKind::Cow,
    ItemKind::Lean,
];

#[derive(Clone, Copy, PartialEq, Eq, Debug)]
pub enum IntTy {
    I8,
    U8,
    I16,
    U16,
    I32,
    U32,
    I64,
    U64,
    I128,
    U128,
    Isize,
    Usize,
}
pub const INT_TYS: [IntTy; 12] = [
    IntTy::I8,
    IntTy::U8,
    IntTy::I16,
    IntTy::U16,
    IntTy::I32,
    IntTy::U32,
    IntTy::I64,
    IntTy::U64,
    IntTy::I128,
    IntTy::U128,
    IntTy::Isize,
    IntTy::Usize,
];

#[derive(Clone, Debug)]
pub enum Tls {
    Int(i128, IntTy),
    F64(u64),
    F32(u32),
    Bool(bool),
    Char(char),
    Str(String),
    Disp(Vec<String>),
}

#[derive(Clone, Debug)]
pub enum Op {
    // constructors (assign into slot t, dropping what was there)
    New { t: usize },
    FromStr { t: usize, s: String },
    FromString { t: usize, s: String },
    FromStringRef { t: usize, s: String },
    FromBox { t: usize, s: String },
    FromCowB { t: usize, s: String },
    FromCowO { t: usize, s: String },
    FromChar { t: usize, c: char },
    Parse { t: usize, s: String },
    FromStatic { t: usize, id: usize },
    WithCap { t: usize, n: usize, try_: bool },
    FromUtf8 { t: usize, s: String },
    FromUtf8Unchecked { t: usize, s: String },
    Utf8Lossy { t: usize, b: Vec<u8> },
    Utf16 { t: usize, u: Vec<u16> },
    Utf16Lossy { t: usize, u: Vec<u16> },
    Collect { t: usize, kind: ItemKind, items: Vec<String>, hint: Option<usize> },
    ToLean { t: usize, v: Tls, try_: bool },
    // sharing
    Clone { t: usize, src: usize },
    CloneFrom { t: usize, src: usize },
    FromRef { t: usize, src: usize },
    ToLeanLean { t: usize, src: usize, try_: bool },
    Drop { t: usize },
    // mutators
    Push { t: usize, c: char, try_: bool },
    PushStr { t: usize, s: String, try_: bool },
    Pop { t: usize, try_: bool },
    Remove { t: usize, i: usize, try_: bool },
    Insert { t: usize, i: usize, c: char, try_: bool },
    InsertStr { t: usize, i: usize, s: String, try_: bool },
    Truncate { t: usize, n: usize, try_: bool },
    Clear { t: usize },
    Retain { t: usize, salt: u64, try_: bool },
    Reserve { t: usize, n: usize, try_: bool },
    ShrinkTo { t: usize, n: usize, try_: bool },
    ShrinkFit { t: usize, try_: bool },
    Extend { t: usize, kind: ItemKind, items: Vec<String>, hint: Option<usize> },
    AddAssign { t: usize, s: String },
    Add { t: usize, s: String },
    Write { t: usize, pieces: Vec<String> },
    OptionRoundTrip { t: usize },
    // panicking callbacks (k = 1-based invocation that panics)
    RetainPanic { t: usize, salt: u64, k: usize },
    ExtendPanic { t: usize, kind: ItemKind, items: Vec<String>, k: usize },
    CollectPanic { t: usize, kind: ItemKind, items: Vec<String>, k: usize },
    ToLeanPanic { t: usize, pieces: Vec<String>, k: usize },
}

impl Op {
    pub fn target(&self) -> usize {
        use Op::*;
        match self {
            New { t }
            | FromStr { t, .. }
            | FromString { t, .. }
            | FromStringRef { t, .. }
            | FromBox { t, .. }
            | FromCowB { t, .. }
            | FromCowO { t, .. }
            | FromChar { t, .. }
            | Parse { t, .. }
            | FromStatic { t, .. }
            | WithCap { t, .. }
            | FromUtf8 { t, .. }
            | FromUtf8Unchecked { t, .. }
            | Utf8Lossy { t, .. }
            | Utf16 { t, .. }
            | Utf16Lossy { t, .. }
            | Collect { t, .. }
            | ToLean { t, .. }
            | Clone { t, .. }
            | CloneFrom { t, .. }
            | FromRef { t, .. }
            | ToLeanLean { t, .. }
            | Drop { t }
            | Push { t, .. }
            | PushStr { t, .. }
            | Pop { t, .. }
            | Remove { t, .. }
            | Insert { t, .. }
            | InsertStr { t, .. }
            | Truncate { t, .. }
            | Clear { t }
            | Retain { t, .. }
            | Reserve { t, .. }
            | ShrinkTo { t, .. }
            | ShrinkFit { t, .. }
            | Extend { t, .. }
            | AddAssign { t, .. }
            | Add { t, .. }
            | Write { t, .. }
            | OptionRoundTrip { t }
            | RetainPanic { t, .. }
            | ExtendPanic { t, .. }
            | CollectPanic { t, .. }
            | ToLeanPanic { t, .. } => *t,
        }
    }
    pub fn source(&self) -> Option<usize> {
        use Op::*;
        match self {
            Clone { src, .. } | CloneFrom { src, .. } | FromRef { src, .. } | ToLeanLean { src, .. } => Some(*src),
            _ => None,
        }
    }
    pub fn tag(&self) -> &'static str {
        use Op::*;
        match self {
            New { .. } => "new",
            FromStr { .. } => "from_str",
            FromString { .. } => "from_string",
            FromStringRef { .. } => "from_string_ref",
            FromBox { .. } => "from_box",
            FromCowB { .. } => "from_cow_borrowed",
            FromCowO { .. } => "from_cow_owned",
            FromChar { .. } => "from_char",
            Parse { .. } => "parse",
            FromStatic { .. } => "from_static_str",
            WithCap { try_: false, .. } => "with_capacity",
            WithCap { try_: true, .. } => "try_with_capacity",
            FromUtf8 { .. } => "from_utf8",
            FromUtf8Unchecked { .. } => "from_utf8_unchecked",
            Utf8Lossy { .. } => "from_utf8_lossy",
            Utf16 { .. } => "from_utf16",
            Utf16Lossy { .. } => "from_utf16_lossy",
            Collect { .. } => "collect",
            ToLean { try_: false, .. } => "to_lean_string",
            ToLean { try_: true, .. } => "try_to_lean_string",
            Clone { .. } => "clone",
            CloneFrom { .. } => "clone_from",
            FromRef { .. } => "from_ref",
            ToLeanLean { .. } => "to_lean_string(lean)",
            Drop { .. } => "drop",
            Push { try_: false, .. } => "push",
            Push { try_: true, .. } => "try_push",
            PushStr { try_: false, .. } => "push_str",
            PushStr { try_: true, .. } => "try_push_str",
            Pop { try_: false, .. } => "pop",
            Pop { try_: true, .. } => "try_pop",
            Remove { try_: false, .. } => "remove",
            Remove { try_: true, .. } => "try_remove",
            Insert { try_: false, .. } => "insert",
            Insert { try_: true, .. } => "try_insert",
            InsertStr { try_: false, .. } => "insert_str",
            InsertStr { try_: true, .. } => "try_insert_str",
            Truncate { try_: false, .. } => "truncate",
            Truncate { try_: true, .. } => "try_truncate",
            Clear { .. } => "clear",
            Retain { try_: false, .. } => "retain",
            Retain { try_: true, .. } => "try_retain",
            Reserve { try_: false, .. } => "reserve",
            Reserve { try_: true, .. } => "try_reserve",
            ShrinkTo { try_: false, .. } => "shrink_to",
            ShrinkTo { try_: true, .. } => "try_shrink_to",
            ShrinkFit { try_: false, .. } => "shrink_to_fit",
            ShrinkFit { try_: true, .. } => "try_shrink_to_fit",
            Extend { .. } => "extend",
            AddAssign { .. } => "add_assign",
            Add { .. } => "add",
            Write { .. } => "write!",
            OptionRoundTrip { .. } => "option_roundtrip",
            RetainPanic { .. } => "retain(panic)",
            ExtendPanic { .. } => "extend(panic)",
            CollectPanic { .. } => "collect(panic)",
            ToLeanPanic { .. } => "to_lean_string(panic)",
        }
    }
    pub fn is_constructor(&self) -> bool {
        use Op::*;
        matches!(
            self,
            New { .. }
                | FromStr { .. }
                | FromString { .. }
                | FromStringRef { .. }
                | FromBox { .. }
                | FromCowB { .. }
                | FromCowO { .. }
                | FromChar { .. }
                | Parse { .. }
                | FromStatic { .. }
                | WithCap { .. }
                | FromUtf8 { .. }
                | FromUtf8Unchecked { .. }
                | Utf8Lossy { .. }
                | Utf16 { .. }
                | Utf16Lossy { .. }
                | Collect { .. }
                | ToLean { .. }
                | CollectPanic { .. }
                | ToLeanPanic { .. }
        )
    }
    pub fn is_clone_like(&self) -> bool {
        matches!(self, Op::Clone { .. } | Op::CloneFrom { .. } | Op::FromRef { .. } | Op::ToLeanLean { .. })
    }
    pub fn is_try(&self) -> bool {
        use Op::*;
        match self {
            WithCap { try_, .. }
            | ToLean { try_, .. }
            | ToLeanLean { try_, .. }
            | Push { try_, .. }
            | PushStr { try_, .. }
            | Pop { try_, .. }
            | Remove { try_, .. }
            | Insert { try_, .. }
            | InsertStr { try_, .. }
            | Truncate { try_, .. }
            | Retain { try_, .. }
            | Reserve { try_, .. }
            | ShrinkTo { try_, .. }
            | ShrinkFit { try_, .. } => *try_,
            Parse { .. } => true,
            _ => false,
        }
    }
    /// short human-readable rendering (long strings abbreviated)
    pub fn show(&self) -> String {
        let d = format!("{:?}", self);
        if d.len() > 240 {
            let mut cut = 240;
            while !d.is_char_boundary(cut) {
                cut -= 1;
            }
            format!("{}…(+{} bytes)", &d[..cut], d.len() - cut)
        } else {
            d
        }
    }
}

#[derive(Clone, Debug, PartialEq)]
pub enum Out {
    Unit,
    Char(char),
    OptChar(Option<char>),
    /// Err(ReserveError) (or ToLeanStringError::Reserve)
    Err,
    ErrFmt,
    ErrOther(String),
    Panic(String),
}

impl Out {
    pub fn class(&self) -> &'static str {
        match self {
            Out::Unit | Out::Char(_) | Out::OptChar(_) => "ok",
            Out::Err => "Err",
            Out::ErrFmt => "ErrFmt",
            Out::ErrOther(_) => "ErrOther",
            Out::Panic(m) if m == RESERVE_MSG => "alloc-panic",
            Out::Panic(_) => "panic",
        }
    }
    pub fn is_ok(&self) -> bool {
        matches!(self, Out::Unit | Out::Char(_) | Out::OptChar(_))
    }
    pub fn is_reserve_failure(&self) -> bool {
        match self {
            Out::Err => true,
            Out::Panic(m) => m == RESERVE_MSG,
            _ => false,
        }
    }
}

pub fn panic_msg(p: Box<dyn std::any::Any + Send>) -> String {
    if let Some(s) = p.downcast_ref::<&str>() {
        (*s).to_string()
    } else if let Some(s) = p.downcast_ref::<String>() {
        s.clone()
    } else {
        "<non-string panic payload>".into()
    }
}

pub const CB_PANIC: &str = "verif: callback panic";

// ---------------------------------------------------------------------------------------------

pub struct Pool {
    pub slots: Box<[Option<LeanString>; NSLOTS]>,
    pub model: Vec<Option<String>>,
    /// id of the harness static text the handle was derived from (if any)
    pub static_id: Vec<Option<usize>>,
}

impl Pool {
    pub fn new() -> Self {
        Pool {
            slots: Box::new([const { None }; NSLOTS]),
            model: vec![None; NSLOTS],
            static_id: vec![None; NSLOTS],
        }
    }
    pub fn occupied(&self) -> Vec<usize> {
        (0..NSLOTS).filter(|&i| self.model[i].is_some()).collect()
    }
}

pub fn retain_pred(salt: u64) -> impl FnMut(char) -> bool {
    let mut i = 0u64;
    move |c| {
        i += 1;
        let h = mix(mix(salt, i), c as u64);
        (salt & 7 == 0) || (h & 3 != 0 && salt & 7 != 1)
    }
}

pub struct Pieces<'a>(pub &'a [String], pub Option<usize>);
impl fmt::Display for Pieces<'_> {
    fn fmt(&self, f: &mut fmt::Formatter<'_>) -> fmt::Result {
        for (i, p) in self.0.iter().enumerate() {
            if Some(i + 1) == self.1 {
                panic!("{}", CB_PANIC);
            }
            match i % 3 {
                0 => f.write_str(p)?,
                1 => write!(f, "{}", p)?,
                _ => {
                    for c in p.chars() {
                        f.write_char(c)?
                    }
                }
            }
        }
        if Some(self.0.len() + 1) == self.1 {
            panic!("{}", CB_PANIC);
        }
        Ok(())
    }
}

/// iterator with a controllable lower size hint and optional panic at the k-th `next()`
pub struct Feed<I> {
    pub inner: I,
    pub hint: Option<usize>,
    pub panic_at: Option<usize>,
    pub calls: usize,
}
impl<I: Iterator> Iterator for Feed<I> {
    type Item = I::Item;
    fn next(&mut self) -> Option<I::Item> {
        self.calls += 1;
        if Some(self.calls) == self.panic_at {
            panic!("{}", CB_PANIC);
        }
        self.inner.next()
    }
    fn size_hint(&self) -> (usize, Option<usize>) {
        match self.hint {
            Some(h) => (h, None),
            None => self.inner.size_hint(),
        }
    }
}
fn feed<I: Iterator>(inner: I, hint: Option<usize>, panic_at: Option<usize>) -> Feed<I> {
    Feed { inner, hint, panic_at, calls: 0 }
}

fn all_chars(items: &[String]) -> Vec<char> {
    items.iter().flat_map(|s| s.chars()).collect()
}

fn extend_real(ls: &mut LeanString, kind: ItemKind, items: &[String], hint: Option<usize>, k: Option<usize>) {
    match kind {
        ItemKind::Char => ls.extend(feed(all_chars(items).into_iter(), hint, k)),
        ItemKind::CharRef => {
            let cs = all_chars(items);
            ls.extend(feed(cs.iter(), hint, k))
        }
        ItemKind::Str => ls.extend(feed(items.iter().map(|s| s.as_str()), hint, k)),
        ItemKind::String => ls.extend(feed(items.iter().cloned(), hint, k)),
        ItemKind::BoxStr => ls.extend(feed(items.iter().map(|s| s.clone().into_boxed_str()), hint, k)),
        ItemKind::Cow => ls.extend(feed(
            items.iter().enumerate().map(|(i, s)| {
                if i % 2 == 0 { Cow::Borrowed(s.as_str()) } else { Cow::Owned(s.clone()) }
            }),
            hint,
            k,
        )),
        ItemKind::Lean => ls.extend(feed(items.iter().map(|s| LeanString::from(s.as_str())), hint, k)),
    }
}

fn extend_model(m: &mut String, kind: ItemKind, items: &[String], k: Option<usize>) {
    match kind {
        ItemKind::Char => m.extend(feed(all_chars(items).into_iter(), None, k)),
        ItemKind::CharRef => {
            let cs = all_chars(items);
            m.extend(feed(cs.iter(), None, k))
        }
        _ => m.extend(feed(items.iter().map(|s| s.as_str()), None, k)),
    }
}

fn collect_real(kind: ItemKind, items: &[String], hint: Option<usize>, k: Option<usize>) -> LeanString {
    match kind {
        ItemKind::Char => feed(all_chars(items).into_iter(), hint, k).collect(),
        ItemKind::CharRef => {
            let cs = all_chars(items);
            feed(cs.iter(), hint, k).collect()
        }
        ItemKind::Str => feed(items.iter().map(|s| s.as_str()), hint, k).collect(),
        ItemKind::String => feed(items.iter().cloned(), hint, k).collect(),
        ItemKind::BoxStr => feed(items.iter().map(|s| s.clone().into_boxed_str()), hint, k).collect(),
        ItemKind::Cow => feed(
            items.iter().enumerate().map(|(i, s)| {
                if i % 2 == 0 { Cow::Borrowed(s.as_str()) } else { Cow::Owned(s.clone()) }
            }),
            hint,
            k,
        )
        .collect(),
        ItemKind::Lean => feed(items.iter().map(|s| LeanString::from(s.as_str())), hint, k).collect(),
    }
}

pub fn int_to_string(v: i128, ty: IntTy) -> String {
    match ty {
        IntTy::I8 => (v as i8).to_string(),
        IntTy::U8 => (v as u8).to_string(),
        IntTy::I16 => (v as i16).to_string(),
        IntTy::U16 => (v as u16).to_string(),
        IntTy::I32 => (v as i32).to_string(),
        IntTy::U32 => (v as u32).to_string(),
        IntTy::I64 => (v as i64).to_string(),
        IntTy::U64 => (v as u64).to_string(),
        IntTy::I128 => v.to_string(),
        IntTy::U128 => (v as u128).to_string(),
        IntTy::Isize => (v as isize).to_string(),
        IntTy::Usize => (v as usize).to_string(),
    }
}

fn int_to_lean(v: i128, ty: IntTy) -> Result<LeanString, lean_string::ToLeanStringError> {
    match ty {
        IntTy::I8 => (v as i8).try_to_lean_string(),
        IntTy::U8 => (v as u8).try_to_lean_string(),
        IntTy::I16 => (v as i16).try_to_lean_string(),
        IntTy::U16 => (v as u16).try_to_lean_string(),
        IntTy::I32 => (v as i32).try_to_lean_string(),
        IntTy::U32 => (v as u32).try_to_lean_string(),
        IntTy::I64 => (v as i64).try_to_lean_string(),
        IntTy::U64 => (v as u64).try_to_lean_string(),
        IntTy::I128 => v.try_to_lean_string(),
        IntTy::U128 => (v as u128).try_to_lean_string(),
        IntTy::Isize => (v as isize).try_to_lean_string(),
        IntTy::Usize => (v as usize).try_to_lean_string(),
    }
}

fn int_to_lean_plain(v: i128, ty: IntTy) -> LeanString {
    match ty {
        IntTy::I8 => (v as i8).to_lean_string(),
        IntTy::U8 => (v as u8).to_lean_string(),
        IntTy::I16 => (v as i16).to_lean_string(),
        IntTy::U16 => (v as u16).to_lean_string(),
        IntTy::I32 => (v as i32).to_lean_string(),
        IntTy::U32 => (v as u32).to_lean_string(),
        IntTy::I64 => (v as i64).to_lean_string(),
        IntTy::U64 => (v as u64).to_lean_string(),
        IntTy::I128 => v.to_lean_string(),
        IntTy::U128 => (v as u128).to_lean_string(),
        IntTy::Isize => (v as isize).to_lean_string(),
        IntTy::Usize => (v as usize).to_lean_string(),
    }
}

/// Expected text for a `Tls` value; for floats `None` (only the round trip is specified).
pub fn tls_expected(v: &Tls) -> Option<String> {
    match v {
        Tls::Int(x, ty) => Some(int_to_string(*x, *ty)),
        Tls::F64(_) | Tls::F32(_) => None,
        Tls::Bool(b) => Some(b.to_string()),
        Tls::Char(c) => Some(c.to_string()),
        Tls::Str(s) => Some(s.clone()),
        Tls::Disp(p) => Some(p.concat()),
    }
}

fn tls_real(v: &Tls, try_: bool) -> Result<LeanString, lean_string::ToLeanStringError> {
    if try_ {
        match v {
            Tls::Int(x, ty) => int_to_lean(*x, *ty),
            Tls::F64(b) => f64::from_bits(*b).try_to_lean_string(),
            Tls::F32(b) => f32::from_bits(*b).try_to_lean_string(),
            Tls::Bool(b) => b.try_to_lean_string(),
            Tls::Char(c) => c.try_to_lean_string(),
            Tls::Str(s) => s.try_to_lean_string(),
            Tls::Disp(p) => Pieces(p, None).try_to_lean_string(),
        }
    } else {
        Ok(match v {
            Tls::Int(x, ty) => int_to_lean_plain(*x, *ty),
            Tls::F64(b) => f64::from_bits(*b).to_lean_string(),
            Tls::F32(b) => f32::from_bits(*b).to_lean_string(),
            Tls::Bool(b) => b.to_lean_string(),
            Tls::Char(c) => c.to_lean_string(),
            Tls::Str(s) => s.to_lean_string(),
            Tls::Disp(p) => Pieces(p, None).to_lean_string(),
        })
    }
}

// ---------------------------------------------------------------------------------------------
// Model

/// Applies `op` to the model. Returns the model outcome. `float_text` is filled by the real run
/// for float conversions (the model accepts any text that round-trips).
pub fn apply_model(pool: &mut Pool, op: &Op) -> Out {
    use Op::*;
    let t = op.target();
    macro_rules! m {
        () => {
            pool.model[t].as_mut().expect("model: target slot empty")
        };
    }
    let set = |pool: &mut Pool, s: String, sid: Option<usize>| {
        pool.model[t] = Some(s);
        pool.static_id[t] = sid;
    };
    match op {
        New { .. } => set(pool, String::new(), None),
        FromStr { s, .. }
        | FromString { s, .. }
        | FromStringRef { s, .. }
        | FromBox { s, .. }
        | FromCowB { s, .. }
        | FromCowO { s, .. }
        | Parse { s, .. }
        | FromUtf8 { s, .. }
        | FromUtf8Unchecked { s, .. } => set(pool, s.clone(), None),
        FromChar { c, .. } => set(pool, c.to_string(), None),
        FromStatic { id, .. } => {
            let txt = static_pristine(*id);
            set(pool, txt, Some(*id))
        }
        WithCap { .. } => set(pool, String::new(), None),
        Utf8Lossy { b, .. } => set(pool, String::from_utf8_lossy(b).into_owned(), None),
        Utf16 { u, .. } => match String::from_utf16(u) {
            Ok(s) => set(pool, s, None),
            Err(_) => return Out::ErrOther("FromUtf16Error".into()),
        },
        Utf16Lossy { u, .. } => set(pool, String::from_utf16_lossy(u), None),
        Collect { items, .. } => set(pool, items.concat(), None),
        ToLean { v, .. } => {
            // floats: model text is filled in after the real run (see `explore`)
            let s = tls_expected(v).unwrap_or_default();
            set(pool, s, None)
        }
        Clone { src, .. } | CloneFrom { src, .. } | FromRef { src, .. } | ToLeanLean { src, .. } => {
            let s = pool.model[*src].clone().expect("model: src empty");
            let sid = pool.static_id[*src];
            set(pool, s, sid)
        }
        Drop { .. } => {
            pool.model[t] = None;
            pool.static_id[t] = None;
        }
        Push { c, .. } => m!().push(*c),
        PushStr { s, .. } | AddAssign { s, .. } | Add { s, .. } => m!().push_str(s),
        Pop { .. } => return Out::OptChar(m!().pop()),
        Remove { i, .. } => {
            let mm = m!();
            return match catch_unwind(AssertUnwindSafe(|| mm.remove(*i))) {
                Ok(c) => Out::Char(c),
                Err(p) => Out::Panic(panic_msg(p)),
            };
        }
        Insert { i, c, .. } => {
            let mm = m!();
            if let Err(p) = catch_unwind(AssertUnwindSafe(|| mm.insert(*i, *c))) {
                return Out::Panic(panic_msg(p));
            }
        }
        InsertStr { i, s, .. } => {
            let mm = m!();
            if let Err(p) = catch_unwind(AssertUnwindSafe(|| mm.insert_str(*i, s))) {
                return Out::Panic(panic_msg(p));
            }
        }
        Truncate { n, .. } => {
            let mm = m!();
            if let Err(p) = catch_unwind(AssertUnwindSafe(|| mm.truncate(*n))) {
                return Out::Panic(panic_msg(p));
            }
        }
        Clear { .. } => m!().clear(),
        Retain { salt, .. } => m!().retain(retain_pred(*salt)),
        Reserve { .. } | ShrinkTo { .. } | ShrinkFit { .. } | OptionRoundTrip { .. } => {}
        Extend { kind, items, .. } => extend_model(m!(), *kind, items, None),
        Write { pieces, .. } => {
            let mm = m!();
            for (i, p) in pieces.iter().enumerate() {
                match i % 3 {
                    0 => write!(mm, "{}", p).unwrap(),
                    1 => mm.write_str(p).unwrap(),
                    _ => {
                        for c in p.chars() {
                            mm.write_char(c).unwrap()
                        }
                    }
                }
            }
        }
        RetainPanic { salt, k, .. } => {
            let mm = m!();
            let mut pred = retain_pred(*salt);
            let mut calls = 0usize;
            let r = catch_unwind(AssertUnwindSafe(|| {
                mm.retain(|c| {
                    calls += 1;
                    if calls == *k {
                        panic!("{}", CB_PANIC);
                    }
                    pred(c)
                })
            }));
            if let Err(p) = r {
                return Out::Panic(panic_msg(p));
            }
        }
        ExtendPanic { kind, items, k, .. } => {
            let mm = m!();
            let r = catch_unwind(AssertUnwindSafe(|| extend_model(mm, *kind, items, Some(*k))));
            if let Err(p) = r {
                return Out::Panic(panic_msg(p));
            }
        }
        CollectPanic { kind, items, k, .. } => {
            // result never exists when the iterator panics: slot keeps its old value
            let n_calls = match kind {
                ItemKind::Char | ItemKind::CharRef => all_chars(items).len() + 1,
                _ => items.len() + 1,
            };
            if *k <= n_calls {
                return Out::Panic(CB_PANIC.into());
            }
            set(pool, items.concat(), None)
        }
        ToLeanPanic { pieces, k, .. } => {
            if *k <= pieces.len() + 1 {
                return Out::Panic(CB_PANIC.into());
            }
            set(pool, pieces.concat(), None)
        }
    }
    Out::Unit
}

// ---------------------------------------------------------------------------------------------
// Real

#[derive(Default, Clone, Debug)]
pub struct StepInfo {
    /// allocator requests issued while building a new value (before it is assigned to the slot)
    pub construct: Option<Counts>,
    /// allocations/reallocations that reached the global allocator (not the crate's hooked calls)
    /// on this thread during the crate call itself - temporaries the crate creates indirectly
    pub foreign: Option<u64>,
    /// text produced by a float conversion
    pub float_text: Option<String>,
}

/// An owned String holding `s`, in about half of the cases with spare capacity (owned sources
/// need not be exact-fit: truncated or pre-reserved Strings are ordinary inputs).
pub fn owned_with_slack(s: &str) -> String {
    let h = hash_bytes(0x51AC, s.as_bytes());
    if h & 1 == 0 {
        return s.to_string();
    }
    let extra = [1usize, 7, 17, 40, 300][(h >> 1) as usize % 5];
    let mut st = String::with_capacity(s.len() + extra);
    st.push_str(s);
    st
}

fn res_unit<E>(r: Result<(), E>) -> Out {
    match r {
        Ok(()) => Out::Unit,
        Err(_) => Out::Err,
    }
}

fn tls_err(e: lean_string::ToLeanStringError) -> Out {
    match e {
        lean_string::ToLeanStringError::Reserve(_) => Out::Err,
        lean_string::ToLeanStringError::Fmt(_) => Out::ErrFmt,
    }
}

/// Applies `op` to the real pool. Panics are caught and reported as `Out::Panic`.
pub fn apply_real(pool: &mut Pool, op: &Op, info: &mut StepInfo) -> Out {
    let g0 = crate::galloc::foreign();
    let r = catch_unwind(AssertUnwindSafe(|| apply_real_inner(pool, op, info)));
    if !op.is_constructor() {
        // (constructors measure around the crate call only: their inputs are built inside)
        info.foreign = Some(crate::galloc::foreign().wrapping_sub(g0));
    }
    match r {
        Ok(o) => o,
        Err(p) => Out::Panic(panic_msg(p)),
    }
}

fn apply_real_inner(pool: &mut Pool, op: &Op, info: &mut StepInfo) -> Out {
    use Op::*;
    let t = op.target();
    macro_rules! ls {
        () => {
            pool.slots[t].as_mut().expect("real: target slot empty")
        };
    }
    // constructors: build first, measure, then assign
    if op.is_constructor() {
        // inputs are prepared first; `meas!` brackets exactly the crate call
        macro_rules! meas {
            ($e:expr) => {{
                let g0 = crate::galloc::foreign();
                let v = $e;
                info.foreign = Some(crate::galloc::foreign().wrapping_sub(g0));
                v
            }};
        }
        let c0 = shim::counts();
        let built: Result<LeanString, Out> = match op {
            New { .. } => Ok(meas!(LeanString::new())),
            FromStr { s, .. } => Ok(meas!(LeanString::from(s.as_str()))),
            FromString { s, .. } => {
                let inp = owned_with_slack(s);
                Ok(meas!(LeanString::from(inp)))
            }
            FromStringRef { s, .. } => Ok(meas!(LeanString::from(s))),
            FromBox { s, .. } => {
                let inp = s.clone().into_boxed_str();
                Ok(meas!(LeanString::from(inp)))
            }
            FromCowB { s, .. } => Ok(meas!(LeanString::from(Cow::Borrowed(s.as_str())))),
            FromCowO { s, .. } => {
                let inp = owned_with_slack(s);
                Ok(meas!(LeanString::from(Cow::<str>::Owned(inp))))
            }
            FromChar { c, .. } => Ok(meas!(LeanString::from(*c))),
            Parse { s, .. } => meas!(s.parse::<LeanString>()).map_err(|_| Out::Err),
            FromStatic { id, .. } => {
                let st = static_text(*id);
                Ok(meas!(LeanString::from_static_str(st)))
            }
            WithCap { n, try_, .. } => {
                if *try_ {
                    meas!(LeanString::try_with_capacity(*n)).map_err(|_| Out::Err)
                } else {
                    Ok(meas!(LeanString::with_capacity(*n)))
                }
            }
            FromUtf8 { s, .. } => {
                meas!(LeanString::from_utf8(s.as_bytes())).map_err(|e| Out::ErrOther(format!("Utf8Error: {e}")))
            }
            FromUtf8Unchecked { s, .. } => Ok(meas!(unsafe { LeanString::from_utf8_unchecked(s.as_bytes()) })),
            Utf8Lossy { b, .. } => Ok(LeanString::from_utf8_lossy(b)),
            Utf16 { u, .. } => LeanString::from_utf16(u).map_err(|_| Out::ErrOther("FromUtf16Error".into())),
            Utf16Lossy { u, .. } => Ok(LeanString::from_utf16_lossy(u)),
            Collect { kind, items, hint, .. } => Ok(collect_real(*kind, items, *hint, None)),
            CollectPanic { kind, items, k, .. } => Ok(collect_real(*kind, items, None, Some(*k))),
            ToLean { v, try_, .. } => {
                let r = meas!(tls_real(v, *try_)).map_err(tls_err);
                if let (Ok(ls), Tls::F64(_) | Tls::F32(_)) = (&r, v) {
                    info.float_text = Some(ls.as_str().to_string());
                }
                r
            }
            ToLeanPanic { pieces, k, .. } => Ok(Pieces(pieces, Some(*k)).to_lean_string()),
            _ => unreachable!(),
        };
        info.construct = Some(shim::delta(c0, shim::counts()));
        return match built {
            Ok(v) => {
                pool.slots[t] = Some(v);
                Out::Unit
            }
            Err(o) => o,
        };
    }
    match op {
        Clone { src, .. } => {
            let v = pool.slots[*src].as_ref().expect("real: src empty").clone();
            info.construct = None;
            pool.slots[t] = Some(v);
        }
        FromRef { src, .. } => {
            let v = LeanString::from(pool.slots[*src].as_ref().expect("real: src empty"));
            pool.slots[t] = Some(v);
        }
        ToLeanLean { src, try_, .. } => {
            let s = pool.slots[*src].as_ref().expect("real: src empty");
            let v = if *try_ {
                match s.try_to_lean_string() {
                    Ok(v) => v,
                    Err(e) => return tls_err(e),
                }
            } else {
                s.to_lean_string()
            };
            pool.slots[t] = Some(v);
        }
        CloneFrom { src, .. } => {
            assert!(t != *src);
            // two disjoint slots of the boxed array
            let (a, b) = if t < *src {
                let (l, r) = pool.slots.split_at_mut(*src);
                (&mut l[t], &r[0])
            } else {
                let (l, r) = pool.slots.split_at_mut(t);
                (&mut r[0], &l[*src])
            };
            let srcv = b.as_ref().expect("real: src empty");
            match a {
                Some(dst) => dst.clone_from(srcv),
                None => *a = Some(srcv.clone()),
            }
        }
        Drop { .. } => {
            pool.slots[t] = None;
        }
        Push { c, try_, .. } => {
            if *try_ {
                return res_unit(ls!().try_push(*c));
            }
            ls!().push(*c)
        }
        PushStr { s, try_, .. } => {
            if *try_ {
                return res_unit(ls!().try_push_str(s));
            }
            ls!().push_str(s)
        }
        Pop { try_, .. } => {
            return if *try_ {
                match ls!().try_pop() {
                    Ok(c) => Out::OptChar(c),
                    Err(_) => Out::Err,
                }
            } else {
                Out::OptChar(ls!().pop())
            };
        }
        Remove { i, try_, .. } => {
            return if *try_ {
                match ls!().try_remove(*i) {
                    Ok(c) => Out::Char(c),
                    Err(_) => Out::Err,
                }
            } else {
                Out::Char(ls!().remove(*i))
            };
        }
        Insert { i, c, try_, .. } => {
            if *try_ {
                return res_unit(ls!().try_insert(*i, *c));
            }
            ls!().insert(*i, *c)
        }
        InsertStr { i, s, try_, .. } => {
            if *try_ {
                return res_unit(ls!().try_insert_str(*i, s));
            }
            ls!().insert_str(*i, s)
        }
        Truncate { n, try_, .. } => {
            if *try_ {
                return res_unit(ls!().try_truncate(*n));
            }
            ls!().truncate(*n)
        }
        Clear { .. } => ls!().clear(),
        Retain { salt, try_, .. } => {
            if *try_ {
                return res_unit(ls!().try_retain(retain_pred(*salt)));
            }
            ls!().retain(retain_pred(*salt))
        }
        Reserve { n, try_, .. } => {
            if *try_ {
                return res_unit(ls!().try_reserve(*n));
            }
            ls!().reserve(*n)
        }
        ShrinkTo { n, try_, .. } => {
            if *try_ {
                return res_unit(ls!().try_shrink_to(*n));
            }
            ls!().shrink_to(*n)
        }
        ShrinkFit { try_, .. } => {
            if *try_ {
                return res_unit(ls!().try_shrink_to_fit());
            }
            ls!().shrink_to_fit()
        }
        Extend { kind, items, hint, .. } => extend_real(ls!(), *kind, items, *hint, None),
        AddAssign { s, .. } => *ls!() += s.as_str(),
        Add { s, .. } => {
            let v = pool.slots[t].take().expect("real: target slot empty");
            // if `+` panics the moved value is dropped by unwinding; the slot stays empty
            let r = v + s.as_str();
            pool.slots[t] = Some(r);
        }
        Write { pieces, .. } => {
            let l = ls!();
            for (i, p) in pieces.iter().enumerate() {
                match i % 3 {
                    0 => write!(l, "{}", p).unwrap(),
                    1 => l.write_str(p).unwrap(),
                    _ => {
                        for c in p.chars() {
                            l.write_char(c).unwrap()
                        }
                    }
                }
            }
        }
        OptionRoundTrip { .. } => {
            let slot = &mut pool.slots[t];
            let taken = slot.take();
            assert!(slot.is_none());
            let v = taken.expect("real: target slot empty");
            let old = slot.replace(v);
            assert!(old.is_none());
        }
        RetainPanic { salt, k, .. } => {
            let mut pred = retain_pred(*salt);
            let mut calls = 0usize;
            ls!().retain(|c| {
                calls += 1;
                if calls == *k {
                    panic!("{}", CB_PANIC);
                }
                pred(c)
            })
        }
        ExtendPanic { kind, items, k, .. } => extend_real(ls!(), *kind, items, None, Some(*k)),
        _ => unreachable!(),
    }
    Out::Unit
}
