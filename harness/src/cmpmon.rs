//! C17 monitor: equality / ordering / hashing / formatting depend on the text alone and agree
//! with `str`, `String`, `Cow<str>`.

use lean_string::LeanString;
use std::borrow::{Borrow, Cow};
use std::collections::{BTreeMap, HashMap};
use std::hash::{BuildHasher, Hash, Hasher};

/// Hasher that records every call (so a different *sequence* of writes is visible even if a
/// particular hash function would collide).
#[derive(Default, Clone, PartialEq, Eq, Debug)]
pub struct RecHasher(pub Vec<u8>);
impl Hasher for RecHasher {
    fn finish(&self) -> u64 {
        crate::util::hash_bytes(7, &self.0)
    }
    fn write(&mut self, bytes: &[u8]) {
        self.0.push(0xF0);
        self.0.extend_from_slice(&(bytes.len() as u32).to_le_bytes());
        self.0.extend_from_slice(bytes);
    }
    fn write_u8(&mut self, i: u8) {
        self.0.push(0xF1);
        self.0.push(i);
    }
    fn write_usize(&mut self, i: usize) {
        self.0.push(0xF8);
        self.0.extend_from_slice(&i.to_le_bytes());
    }
    fn write_u32(&mut self, i: u32) {
        self.0.push(0xF4);
        self.0.extend_from_slice(&i.to_le_bytes());
    }
    fn write_u64(&mut self, i: u64) {
        self.0.push(0xF9);
        self.0.extend_from_slice(&i.to_le_bytes());
    }
}

#[derive(Clone, Default)]
pub struct FixedState;
impl BuildHasher for FixedState {
    type Hasher = std::collections::hash_map::DefaultHasher;
    fn build_hasher(&self) -> Self::Hasher {
        std::collections::hash_map::DefaultHasher::new()
    }
}

fn rec<T: Hash + ?Sized>(t: &T) -> RecHasher {
    let mut h = RecHasher::default();
    t.hash(&mut h);
    h
}
fn sip<T: Hash + ?Sized>(t: &T) -> u64 {
    let mut h = std::collections::hash_map::DefaultHasher::new();
    t.hash(&mut h);
    h.finish()
}

/// Checks that involve one handle and its model text.
pub fn check_single(a: &LeanString, ma: &str) -> Result<(), String> {
    if rec(a) != rec(ma) {
        return Err(format!("Hash of LeanString feeds the hasher differently from str for {:?}", ma));
    }
    if sip(a) != sip(ma) {
        return Err(format!("SipHash of LeanString differs from str for {:?}", ma));
    }
    if format!("{a}") != format!("{ma}") {
        return Err(format!("Display differs for {:?}", ma));
    }
    if format!("{a:?}") != format!("{ma:?}") {
        return Err(format!("Debug differs for {:?}", ma));
    }
    if format!("{a:>20}|{a:<7}|{a:^9}|{a:.3}|{a:*>5.2}") != format!("{ma:>20}|{ma:<7}|{ma:^9}|{ma:.3}|{ma:*>5.2}") {
        return Err(format!("padded/truncated Display differs for {:?}", ma));
    }
    let b: &str = a.borrow();
    let r: &str = a.as_ref();
    let d: &str = a;
    let by: &[u8] = a.as_ref();
    if b != ma || r != ma || d != ma || by != ma.as_bytes() {
        return Err(format!("Borrow/AsRef/Deref text differs for {:?}", ma));
    }
    // comparisons with str / &str / String / Cow in both argument orders
    let s: String = ma.to_string();
    let cow_b: Cow<str> = Cow::Borrowed(ma);
    let cow_o: Cow<str> = Cow::Owned(ma.to_string());
    let ok = *a == *ma
        && *ma == *a
        && *a == ma
        && ma == *a
        && *a == s
        && s == *a
        && *a == cow_b
        && cow_b == *a
        && *a == cow_o
        && cow_o == *a;
    if !ok {
        return Err(format!("LeanString == str/&str/String/Cow disagrees with str equality for {:?}", ma));
    }
    // a different text must compare unequal
    let mut other = ma.to_string();
    other.push('x');
    let cow_x: Cow<str> = Cow::Borrowed(other.as_str());
    if *a == *other.as_str() || *other.as_str() == *a || *a == other || other == *a || *a == cow_x || cow_x == *a {
        return Err(format!("LeanString compares equal to a longer text for {:?}", ma));
    }
    if !ma.is_empty() {
        let shorter = &ma[..ma.char_indices().last().unwrap().0];
        if *a == *shorter || a == &shorter {
            return Err(format!("LeanString compares equal to a shorter text for {:?}", ma));
        }
    }
    let back: String = String::from(a);
    if back != ma {
        return Err(format!("String::from(&LeanString) differs for {:?}", ma));
    }
    let back2: String = String::from(a.clone());
    let mut ext = String::from("<");
    ext.extend([a.clone(), LeanString::from(">")]);
    if back2 != ma || ext.len() != ma.len() + 2 || &ext[1..ext.len() - 1] != ma {
        return Err(format!("String::from(LeanString) / String::extend(LeanString) differs for {:?}", ma));
    }
    #[cfg(feature = "ls-std")]
    {
        let os: &std::ffi::OsStr = a.as_ref();
        if os != std::ffi::OsStr::new(ma) {
            return Err(format!("AsRef<OsStr> differs for {:?}", ma));
        }
    }
    if a.to_string() != ma || a.chars().count() != ma.chars().count() || a.is_empty() != ma.is_empty() {
        return Err(format!("to_string / Deref methods differ for {:?}", ma));
    }
    Ok(())
}

/// Checks that involve two handles.
pub fn check_pair(a: &LeanString, ma: &str, b: &LeanString, mb: &str) -> Result<(), String> {
    if (a == b) != (ma == mb) || (a != b) != (ma != mb) {
        return Err(format!("eq/ne disagrees with str for {:?} vs {:?}", ma, mb));
    }
    if a.cmp(b) != ma.cmp(mb) {
        return Err(format!("cmp disagrees with str for {:?} vs {:?}", ma, mb));
    }
    if a.partial_cmp(b) != ma.partial_cmp(mb) {
        return Err(format!("partial_cmp disagrees with str for {:?} vs {:?}", ma, mb));
    }
    if (a < b) != (ma < mb) || (a >= b) != (ma >= mb) {
        return Err(format!("</>= disagrees with str for {:?} vs {:?}", ma, mb));
    }
    if ma == mb && (rec(a) != rec(b) || sip(a) != sip(b)) {
        return Err(format!("equal texts hash differently: {:?}", ma));
    }
    Ok(())
}

/// Map lookups by `&str` over a set of handles.
pub fn check_maps(items: &[(&LeanString, &str)]) -> Result<(), String> {
    let mut hm: HashMap<LeanString, usize, FixedState> = HashMap::with_hasher(FixedState);
    let mut bm: BTreeMap<LeanString, usize> = BTreeMap::new();
    let mut hs: HashMap<String, usize, FixedState> = HashMap::with_hasher(FixedState);
    let mut bs: BTreeMap<String, usize> = BTreeMap::new();
    for (i, (l, m)) in items.iter().enumerate() {
        hm.insert((*l).clone(), i);
        bm.insert((*l).clone(), i);
        hs.insert(m.to_string(), i);
        bs.insert(m.to_string(), i);
    }
    if hm.len() != hs.len() || bm.len() != bs.len() {
        return Err(format!(
            "map sizes differ: HashMap {} vs {}, BTreeMap {} vs {}",
            hm.len(),
            hs.len(),
            bm.len(),
            bs.len()
        ));
    }
    for (_, m) in items {
        if hm.get(*m) != hs.get(*m) {
            return Err(format!("HashMap<LeanString,_>::get(&str) wrong for {:?}", m));
        }
        if bm.get(*m) != bs.get(*m) {
            return Err(format!("BTreeMap<LeanString,_>::get(&str) wrong for {:?}", m));
        }
        let mut absent = m.to_string();
        absent.push('\u{1}');
        if hm.get(absent.as_str()).is_some() || bm.get(absent.as_str()).is_some() {
            return Err(format!("map lookup finds absent key {:?}", absent));
        }
    }
    let order_l: Vec<&str> = bm.keys().map(|k| k.as_str()).collect();
    let order_s: Vec<&str> = bs.keys().map(|k| k.as_str()).collect();
    if order_l != order_s {
        return Err("BTreeMap iteration order differs from String keys".into());
    }
    Ok(())
}
