//! Enumerating engines built on the explorer's step machinery (all monitors run on every step).

use crate::explore::*;
use crate::genops::{Profile, Step, size_table};
use crate::ops::*;
use crate::shim;
use crate::util::*;
use crate::{Args, emit_viol_case, stat_props};
use lean_string::LeanString;

/// `--mod n --rem i`: keep only every n-th outer case (used to shard slow flavours)
pub struct Shard {
    n: u64,
    i: u64,
    k: u64,
}
impl Shard {
    pub fn new(a: &Args) -> Shard {
        Shard { n: a.num("mod", 1).max(1), i: a.num("rem", 0), k: 0 }
    }
    pub fn take(&mut self) -> bool {
        let r = self.k % self.n == self.i % self.n;
        self.k += 1;
        r
    }
}

pub struct Runner {
    pub ex: Explorer,
    pub pool: Pool,
    pub log: Vec<Op>,
    pub cases: u64,
    pub nviol: u64,
    pub engine: &'static str,
    pub per_monitor: std::collections::BTreeMap<(usize, &'static str), u64>,
    pub seed: u64,
    pub counters: std::collections::BTreeMap<String, u64>,
    pub sigs: SigSet,
    pub samples: Vec<String>,
    pub evals: u64,
}

impl Runner {
    pub fn new(engine: &'static str, seed: u64) -> Runner {
        let mut ex = Explorer::new();
        ex.cmp_every = 0;
        Runner {
            ex,
            pool: Pool::new(),
            log: Vec::new(),
            cases: 0,
            nviol: 0,
            engine,
            per_monitor: Default::default(),
            seed,
            counters: Default::default(),
            sigs: SigSet::default(),
            samples: Vec::new(),
            evals: 0,
        }
    }
    pub fn count(&mut self, k: &str, n: u64) {
        *self.counters.entry(k.to_string()).or_insert(0) += n;
    }
    pub fn hit(&mut self, sig: u64, sample: impl FnOnce() -> String) {
        self.evals += 1;
        if self.sigs.insert(sig) && self.samples.len() < 6 {
            self.samples.push(sample());
        }
    }
    fn report(&mut self, v: Vec<Viol>, case: &str) {
        for x in v {
            let c = self.per_monitor.entry((x.prop, x.monitor)).or_insert(0);
            *c += 1;
            self.nviol += 1;
            if *c <= 3 {
                emit_viol_case(self.engine, &x, self.seed, case, &self.log);
            }
        }
    }
    /// Applies one op with all monitors; returns false if a violation was found (case abandoned).
    pub fn apply(&mut self, op: Op, case: &str) -> bool {
        self.apply_fault(op, None, case)
    }
    pub fn apply_fault(&mut self, op: Op, fault: Option<u64>, case: &str) -> bool {
        self.log.push(op.clone());
        let step = Step { op, fault };
        let v = self.ex.step(&mut self.pool, &step, false);
        if v.is_empty() {
            return true;
        }
        let v: Vec<Viol> = v
            .into_iter()
            .map(|mut x| {
                x.msg = format!("step {} {}: {}", self.log.len() - 1, step.op.show(), x.msg);
                x
            })
            .collect();
        self.report(v, case);
        Explorer::abandon(&mut self.pool);
        self.log.clear();
        false
    }
    /// Ends a case: drops all handles, heap must be empty.
    pub fn end_case(&mut self, case: &str) {
        self.cases += 1;
        let order: Vec<usize> = if self.cases % 2 == 0 { (0..NSLOTS).collect() } else { (0..NSLOTS).rev().collect() };
        let v = self.ex.end_of_history(&mut self.pool, &order);
        let (v, _) = self.ex.filter(v, "end of case");
        if !v.is_empty() {
            self.report(v, case);
            Explorer::abandon(&mut self.pool);
        }
        self.log.clear();
    }
    pub fn set_decides(&mut self, a: &Args) {
        self.ex.decides = stat_props(a);
    }
    pub fn announce(&self, a: &Args, case: &str) {
        if a.flag("announce") {
            emit(&J::new().s("t", "hist").s("engine", self.engine).s("case", case).render());
        }
    }
    pub fn finish(&mut self, a: &Args, exhaustive: Option<&str>, info: Vec<(&str, String)>) {
        if let Some(i) = statics_damaged_all() {
            emit_viol_case(
                self.engine,
                &Viol { prop: 10, monitor: "static-pristine", msg: format!("static text #{i} was modified") },
                self.seed,
                "end of engine",
                &[],
            );
            self.nviol += 1;
        }
        let counters = format!(
            "{{{}}}",
            self.counters.iter().map(|(k, v)| format!("{}:{}", jstr(k), v)).collect::<Vec<_>>().join(",")
        );
        let mut ec = J::new()
            .n("evals", self.evals)
            .raw("sigs", jarr(self.sigs.iter().take(30000).map(|s| s.to_string())))
            .raw("samples", jarr(self.samples.iter().map(|s| jstr(s))))
            .raw("counters", counters)
            .n("cases", self.cases);
        if let (Some(scope), true) = (exhaustive, a.num("mod", 1) <= 1) {
            ec = ec.b("exhaustive", true).s("exhaustive_scope", scope);
        }
        let infoj = format!("{{{}}}", info.iter().map(|(k, v)| format!("{}:{}", jstr(k), v)).collect::<Vec<_>>().join(","));
        ec = ec.raw("info", infoj);
        emit(
            &J::new()
                .s("t", "stat")
                .s("engine", self.engine)
                .n("seed", self.seed)
                .n("violations", self.nviol)
                .n("swallowed_hint_failures", self.ex.swallowed_ok)
                .raw("cov", crate::cov_json(&self.ex.cov, &stat_props(a), a.flag("announce")))
                .raw("cross", crate::cross_json(&self.ex))
                .raw("ecov", ec.render())
                .render(),
        );
    }
}

// ---------------------------------------------------------------------------------------------
// target states

#[derive(Clone, Copy, Debug, PartialEq, Eq)]
pub enum TState {
    InlineEmpty,
    Inline,
    Inline16,
    Static,
    StaticTruncated,
    HeapUnique,
    HeapSpare,
    HeapShared,
    HeapSharedShorter,
    HeapSharedLonger,
}
pub const ALL_STATES: [TState; 10] = [
    TState::InlineEmpty,
    TState::Inline,
    TState::Inline16,
    TState::Static,
    TState::StaticTruncated,
    TState::HeapUnique,
    TState::HeapSpare,
    TState::HeapShared,
    TState::HeapSharedShorter,
    TState::HeapSharedLonger,
];

fn pad_to(r: &mut Rng, text: &str, len: usize) -> String {
    let mut s = text.to_string();
    while s.len() < len {
        s.push(*r.pick(&W1[..8]));
    }
    s
}

/// Builds slot 0 into `state` holding a text derived from `text` (returned). Other slots may hold
/// siblings. Returns None if the state cannot hold such a text.
pub fn build_state(rn: &mut Runner, r: &mut Rng, state: TState, text: &str, case: &str) -> Option<String> {
    let t = 0;
    match state {
        TState::InlineEmpty => {
            rn.apply(Op::New { t }, case).then(String::new)
        }
        TState::Inline => {
            if text.len() > 15 {
                return None;
            }
            rn.apply(Op::FromStr { t, s: text.to_string() }, case).then(|| text.to_string())
        }
        TState::Inline16 => {
            if text.len() > 16 {
                return None;
            }
            let s = pad_to(r, text, 16);
            rn.apply(Op::FromStr { t, s: s.clone() }, case).then_some(s)
        }
        TState::Static => {
            let pl = 17 + r.below(8);
            let s = pad_to(r, text, pl);
            let id = register_static(&s);
            rn.apply(Op::FromStatic { t, id }, case).then_some(s)
        }
        TState::StaticTruncated => {
            // static text longer than the wanted one, truncated back to `text`
            let mut s = text.to_string();
            while s.len() < 17 + text.len() {
                s.push('z');
            }
            let id = register_static(&s);
            if !rn.apply(Op::FromStatic { t, id }, case) {
                return None;
            }
            rn.apply(Op::Truncate { t, n: text.len(), try_: false }, case).then(|| text.to_string())
        }
        TState::HeapUnique => {
            let pl = 17 + r.below(30);
            let s = pad_to(r, text, pl);
            rn.apply(Op::FromStr { t, s: s.clone() }, case).then_some(s)
        }
        TState::HeapSpare => {
            let cap = (text.len() + 1 + r.below(40)).max(17 + r.below(20));
            if !rn.apply(Op::WithCap { t, n: cap, try_: false }, case) {
                return None;
            }
            if !text.is_empty() && !rn.apply(Op::PushStr { t, s: text.to_string(), try_: false }, case) {
                return None;
            }
            Some(text.to_string())
        }
        TState::HeapShared => {
            let pl = 17 + r.below(30);
            let s = pad_to(r, text, pl);
            if !rn.apply(Op::FromStr { t, s: s.clone() }, case) {
                return None;
            }
            rn.apply(Op::Clone { t: 1, src: 0 }, case).then_some(s)
        }
        TState::HeapSharedShorter => {
            // target is shorter than its sibling: stale text lies behind its end
            let mut s = text.to_string();
            while s.len() < 17 + text.len() {
                s.push('q');
            }
            if !rn.apply(Op::FromStr { t: 1, s }, case) {
                return None;
            }
            if !rn.apply(Op::Clone { t: 0, src: 1 }, case) {
                return None;
            }
            rn.apply(Op::Truncate { t: 0, n: text.len(), try_: false }, case).then(|| text.to_string())
        }
        TState::HeapSharedLonger => {
            let pl = 20 + r.below(20);
            let s = pad_to(r, text, pl);
            if !rn.apply(Op::FromStr { t: 0, s: s.clone() }, case) {
                return None;
            }
            if !rn.apply(Op::Clone { t: 1, src: 0 }, case) {
                return None;
            }
            let cut = s.floor_char_boundary(s.len() / 2);
            rn.apply(Op::Truncate { t: 1, n: cut, try_: false }, case).then_some(s)
        }
    }
}

fn aftermath(rn: &mut Runner, r: &mut Rng, case: &str) {
    // exercise the target and its siblings after the interesting call
    let occ = rn.pool.occupied();
    for &t in &occ {
        let ok = match r.below(4) {
            0 => rn.apply(Op::Push { t, c: gen_char(r), try_: false }, case),
            1 => rn.apply(Op::PushStr { t, s: "tail-€".into(), try_: true }, case),
            2 => rn.apply(Op::Pop { t, try_: false }, case),
            _ => rn.apply(Op::Retain { t, salt: r.next() | 2, try_: false }, case),
        };
        if !ok {
            return;
        }
    }
}

// ---------------------------------------------------------------------------------------------
// C05: systematic fault enumeration

pub fn engine_faults(a: &Args) {
    crate::install_shim(a);
    let seed = a.num("seed", 1);
    let histories = a.num("histories", 20);
    let steps = a.num("steps", 50) as usize;
    let pairs = a.flag("pairs");
    let profiles = [Profile::Sharing, Profile::Default, Profile::Static, Profile::ErrorPath, Profile::Shrink];
    let mut ex = Explorer::new();
    ex.cmp_every = 0;
    ex.decides = stat_props(a);
    let mut runs = 0u64;
    let mut requests = 0u64;
    let mut nviol = 0u64;
    let mut per_monitor: std::collections::BTreeMap<(usize, &'static str), u64> = Default::default();
    let only_h = a.get("only-history").map(|x| x.parse::<u64>().unwrap());
    let only_k = a.get("only-fault").map(|x| x.parse::<u64>().unwrap());
    for h in 0..histories {
        if let Some(oh) = only_h {
            if oh != h {
                continue;
            }
        }
        let profile = profiles[(h as usize) % profiles.len()];
        // clean run: count the crate's requests
        let mut clean = Explorer::new();
        clean.cmp_every = 0;
        clean.decides = stat_props(a);
        let (v0, ctx0, n) = clean.run_history(seed, h, profile, steps, Some((0, 0)));
        for v in &v0 {
            let c = per_monitor.entry((v.prop, v.monitor)).or_insert(0);
            *c += 1;
            nviol += 1;
            if *c <= 3 {
                crate::emit_viol_h("faults", v, seed, h, profile.name(), &format!("clean run"), &ctx0.oplog, vec!["--only-history".into(), h.to_string(), "--only-fault".into(), "0".into()]);
            }
        }
        if !v0.is_empty() {
            continue;
        }
        requests += n;
        let mut plans: Vec<(u64, u64)> = (1..=n).map(|k| (k, 0)).collect();
        if pairs {
            for k in 1..=n {
                for j in 1..=3 {
                    plans.push((k, k + j));
                }
            }
        }
        for (k1, k2) in plans {
            if let Some(ok) = only_k {
                if ok != k1 {
                    continue;
                }
            }
            if a.flag("announce") {
                emit(&J::new().s("t", "hist").s("engine", "faults").n("hist", h).n("fault", k1).n("fault2", k2).render());
            }
            let (v, ctx, _) = ex.run_history(seed, h, profile, steps, Some((k1, k2)));
            runs += 1;
            for x in &v {
                let c = per_monitor.entry((x.prop, x.monitor)).or_insert(0);
                *c += 1;
                nviol += 1;
                if *c <= 3 {
                    crate::emit_viol_h(
                        "faults",
                        x,
                        seed,
                        h,
                        profile.name(),
                        &format!("request #{k1}{} of the history fails", if k2 > 0 { format!(" and #{k2}") } else { String::new() }),
                        &ctx.oplog,
                        vec!["--only-history".into(), h.to_string(), "--only-fault".into(), k1.to_string()],
                    );
                }
            }
            if nviol > 300 {
                break;
            }
        }
    }
    let ec = J::new()
        .n("evals", 0)
        .raw("sigs", "[]".into())
        .raw("samples", "[]".into())
        .raw(
            "counters",
            format!(
                "{{\"faulted_runs\":{},\"histories\":{},\"requests_enumerated\":{}}}",
                runs, histories, requests
            ),
        )
        .raw("info", "{}".into());
    emit(
        &J::new()
            .s("t", "stat")
            .s("engine", "faults")
            .n("seed", seed)
            .n("violations", nviol)
            .n("swallowed_hint_failures", ex.swallowed_ok)
            .raw("cov", crate::cov_json(&ex.cov, &stat_props(a), a.flag("announce")))
            .raw("cross", crate::cross_json(&ex))
            .raw("ecov", ec.render())
            .render(),
    );
}

// ---------------------------------------------------------------------------------------------
// C06: size table x entry point x target state

pub fn engine_sizes(a: &Args) {
    crate::install_shim(a);
    let seed = a.num("seed", 1);
    let mut r = Rng::new(seed);
    let mut rn = Runner::new("sizes", seed);
    rn.set_decides(a);
    let table = size_table();
    let stride = a.num("stride", 1) as usize;
    let offset = (seed as usize) % stride.max(1);
    let boundary_only = a.flag("boundary-only");
    let mut n_cases = 0u64;
    let mut shard = Shard::new(a);
    for (vi, &v0) in table.iter().enumerate() {
        if vi % stride != offset {
            continue;
        }
        if boundary_only && (v0 as u64) < (1u64 << 40) && v0 > 64 {
            continue;
        }
        for state in ALL_STATES {
            if !shard.take() {
                continue;
            }
            for entry in 0..9 {
                for variant in 0..2 {
                    let case = format!("v={v0} variant={variant} state={state:?} entry={entry}");
                    rn.announce(a, &case);
                    let tl = [3usize, 9, 15][r.below(3)];
                    let text = gen_text(&mut r, tl);
                    let Some(cur) = build_state(&mut rn, &mut r, state, &text, &case) else {
                        rn.end_case(&case);
                        continue;
                    };
                    let v = if variant == 0 { v0 } else { v0.wrapping_sub(cur.len()) };
                    let t = 0;
                    let free = 5;
                    let op = match entry {
                        0 => Op::WithCap { t: free, n: v, try_: true },
                        1 => Op::WithCap { t: free, n: v, try_: false },
                        2 => Op::Reserve { t, n: v, try_: true },
                        3 => Op::Reserve { t, n: v, try_: false },
                        4 => Op::ShrinkTo { t, n: v, try_: true },
                        5 => Op::ShrinkTo { t, n: v, try_: false },
                        6 => Op::Extend { t, kind: ItemKind::Char, items: vec!["ab€".into(), "c".into()], hint: Some(v) },
                        7 => Op::Collect { t: free, kind: if r.chance(1, 2) { ItemKind::Char } else { ItemKind::CharRef }, items: vec!["xyz𝄞".into(); r.below(9)], hint: Some(v) },
                        _ => Op::Extend { t, kind: ItemKind::Str, items: vec!["ab€".into(), "cdefghijklmnopqrstu".into()], hint: Some(v) },
                    };
                    let sig = mix(vi as u64, mix(state as u64, mix(entry as u64, variant as u64)));
                    if rn.apply(op.clone(), &case) {
                        aftermath(&mut rn, &mut r, &case);
                    }
                    rn.ex.cov.hit(6, sig, || format!("{} in state {:?}", op.show(), state));
                    rn.end_case(&case);
                    n_cases += 1;
                }
            }
        }
    }
    rn.count("table_values", (table.len() / stride.max(1)) as u64);
    rn.count("cases", n_cases);
    let scope = format!(
        "the C06 size table ({} values{}) x 2 variants (v, v - len) x {} target states x 9 entry points",
        table.len(),
        if stride > 1 { format!(", stride {stride}") } else { String::new() },
        ALL_STATES.len()
    );
    rn.finish(a, if stride == 1 && !boundary_only { Some(&scope) } else { None }, vec![("size_table_len", table.len().to_string())]);
}

// ---------------------------------------------------------------------------------------------
// C07: texts x indices x ops x states

fn index_texts(max_chars: usize) -> Vec<String> {
    let alpha = ['a', 'é', '€', '𝄞'];
    let mut out = Vec::new();
    let mut cur: Vec<String> = vec![String::new()];
    for _ in 0..max_chars {
        let mut next = Vec::new();
        for s in &cur {
            for c in alpha {
                let mut t = s.clone();
                t.push(c);
                next.push(t);
            }
        }
        out.extend(next.iter().cloned());
        cur = next;
    }
    out
}

pub fn engine_indices(a: &Args) {
    crate::install_shim(a);
    let seed = a.num("seed", 1);
    let mut r = Rng::new(seed);
    let mut rn = Runner::new("indices", seed);
    rn.set_decides(a);
    let max_chars = a.num("max-chars", 6) as usize;
    let sample_pct = a.num("sample-pct", 100) as usize;
    let texts = index_texts(max_chars);
    let states = [
        TState::Inline,
        TState::Inline16,
        TState::Static,
        TState::StaticTruncated,
        TState::HeapUnique,
        TState::HeapSpare,
        TState::HeapShared,
        TState::HeapSharedShorter,
    ];
    let mut calls = 0u64;
    let mut shard = Shard::new(a);
    for (ti, text) in texts.iter().enumerate() {
        for (si, &state) in states.iter().enumerate() {
            if !shard.take() {
                continue;
            }
            if sample_pct < 100 && r.below(100) >= sample_pct {
                continue;
            }
            for opk in 0..8 {
                // build once, then try every index; rebuild after a successful (mutating) call
                let case = format!("text={text:?} state={state:?} op={opk}");
                rn.announce(a, &case);
                let mut built: Option<String> = None;
                let mut idx = 0usize;
                loop {
                    if built.is_none() {
                        rn.end_case(&case);
                        match build_state(&mut rn, &mut r, state, text, &case) {
                            Some(s) => built = Some(s),
                            None => break,
                        }
                    }
                    let cur = built.clone().unwrap();
                    if idx > cur.len() + 2 {
                        break;
                    }
                    let t = 0;
                    let op = match opk {
                        0 => Op::Insert { t, i: idx, c: 'é', try_: false },
                        1 => Op::Insert { t, i: idx, c: 'x', try_: true },
                        2 => Op::InsertStr { t, i: idx, s: "€y".into(), try_: false },
                        3 => Op::InsertStr { t, i: idx, s: String::new(), try_: true },
                        4 => Op::Remove { t, i: idx, try_: false },
                        5 => Op::Remove { t, i: idx, try_: true },
                        6 => Op::Truncate { t, n: idx, try_: false },
                        _ => Op::Truncate { t, n: idx, try_: true },
                    };
                    let before = rn.pool.model[0].clone();
                    let ok = rn.apply(op, &case);
                    calls += 1;
                    if !ok || rn.pool.model[0] != before || rn.pool.slots[0].as_ref().map(kind_of) != Some(state_kind(state)) {
                        built = None; // rebuild (state changed or case abandoned)
                    }
                    idx += 1;
                }
                rn.end_case(&case);
                let _ = (ti, si);
            }
        }
    }
    rn.count("index_calls", calls);
    rn.count("texts", texts.len() as u64);
    let scope = format!(
        "all {} texts of 1..={} chars over {{a,é,€,𝄞}} x every index 0..=len+2 x 8 call forms x {} storage states",
        texts.len(),
        max_chars,
        states.len()
    );
    rn.finish(a, if sample_pct >= 100 { Some(&scope) } else { None }, vec![]);
}

fn state_kind(s: TState) -> Kind {
    match s {
        TState::InlineEmpty | TState::Inline | TState::Inline16 => Kind::Inline,
        TState::Static | TState::StaticTruncated => Kind::Static,
        _ => Kind::Heap,
    }
}

// ---------------------------------------------------------------------------------------------
// C18: every panic position of every callback-driven op in every target state

pub fn engine_panics(a: &Args) {
    crate::install_shim(a);
    let seed = a.num("seed", 1);
    let mut r = Rng::new(seed);
    let mut rn = Runner::new("panics", seed);
    rn.set_decides(a);
    let rounds = a.num("rounds", 3);
    let mut with_heap = 0u64;
    let mut shard = Shard::new(a);
    for round in 0..rounds {
        for state in ALL_STATES {
            for opk in 0..(3 + 2 * ITEM_KINDS.len()) {
                if !shard.take() {
                    continue;
                }
                let nchars = [0usize, 1, 3, 7, 12, 17, 25, 40][r.below(8)];
                let text = {
                    let mut s = String::new();
                    for _ in 0..nchars {
                        s.push(gen_char(&mut r));
                    }
                    s
                };
                let items: Vec<String> = (0..r.below(6)).map(|_| { let l = short_len(&mut r); gen_text(&mut r, l) }).collect();
                let n_calls = |kind: ItemKind, items: &Vec<String>| match kind {
                    ItemKind::Char | ItemKind::CharRef => items.iter().map(|s| s.chars().count()).sum::<usize>() + 1,
                    _ => items.len() + 1,
                };
                // number of callback invocations depends on the op
                let (total, mk): (usize, Box<dyn Fn(usize) -> Op>) = if opk == 0 {
                    let salt = r.next();
                    (usize::MAX, Box::new(move |k| Op::RetainPanic { t: 0, salt, k }))
                } else if opk == 1 {
                    let pieces = items.clone();
                    (pieces.len() + 1, Box::new(move |k| Op::ToLeanPanic { t: 5, pieces: pieces.clone(), k }))
                } else if opk == 2 {
                    let pieces = items.clone();
                    (pieces.len() + 1, Box::new(move |k| Op::ToLeanPanic { t: 0, pieces: pieces.clone(), k }))
                } else if opk < 3 + ITEM_KINDS.len() {
                    let kind = ITEM_KINDS[opk - 3];
                    let it = items.clone();
                    (n_calls(kind, &items), Box::new(move |k| Op::ExtendPanic { t: 0, kind, items: it.clone(), k }))
                } else {
                    let kind = ITEM_KINDS[opk - 3 - ITEM_KINDS.len()];
                    let it = items.clone();
                    (n_calls(kind, &items), Box::new(move |k| Op::CollectPanic { t: 5, kind, items: it.clone(), k }))
                };
                let mut k = 1usize;
                loop {
                    let case = format!("round={round} state={state:?} op={opk} k={k}");
                    rn.announce(a, &case);
                    let Some(cur) = build_state(&mut rn, &mut r, state, &text, &case) else {
                        rn.end_case(&case);
                        break;
                    };
                    let total_k = if total == usize::MAX { cur.chars().count() } else { total };
                    if k > total_k {
                        rn.end_case(&case);
                        break;
                    }
                    let op = mk(k);
                    if rn.pool.slots[0].as_ref().map(|s| s.is_heap_allocated()).unwrap_or(false) {
                        with_heap += 1;
                    }
                    let kclass = if k == 1 { 0 } else if k == total_k { 2 } else { 1 };
                    let sig = mix(opk as u64, mix(state as u64, kclass));
                    let ok = rn.apply(op.clone(), &case);
                    rn.ex.cov.hit(18, sig ^ 0x1818, || format!("{} in state {:?} (k={}/{})", op.show(), state, k, total_k));
                    if ok {
                        aftermath(&mut rn, &mut r, &case);
                    }
                    rn.end_case(&case);
                    k += 1;
                }
            }
        }
    }
    rn.count("cases_with_heap_target_at_panic", with_heap);
    rn.finish(a, Some("every panic position k=1..=(callback invocations) for each generated (state, op, text) case"), vec![]);
}

// ---------------------------------------------------------------------------------------------
// C08: clone sweep

pub fn engine_clones(a: &Args) {
    crate::install_shim(a);
    let seed = a.num("seed", 1);
    let mut r = Rng::new(seed);
    let mut rn = Runner::new("clones", seed);
    rn.set_decides(a);
    let max_len = a.num("max-big-len", 16 << 20) as usize;
    let mut lens: Vec<usize> = (0..=40).collect();
    lens.extend([63, 64, 65, 1 << 10, 1 << 16, 1 << 20, 16 << 20].iter().filter(|&&l| l <= max_len));
    let counts: &[usize] = if a.num("miri", 0) == 1 { &[1, 2, 20] } else { &[1, 2, 100, 10000] };
    let mut shard = Shard::new(a);
    for &len in &lens {
        for state in [TState::Inline, TState::Inline16, TState::Static, TState::HeapUnique, TState::HeapSpare, TState::HeapSharedShorter] {
            if !shard.take() {
                continue;
            }
            let case = format!("len={len} state={state:?}");
            rn.announce(a, &case);
            let text = gen_text(&mut r, len.min(64));
            let cur = if len > 64 {
                // big buffers: direct construction
                if state_kind(state) != Kind::Heap {
                    continue;
                }
                let big = "x".repeat(len);
                if !rn.apply(Op::FromString { t: 0, s: big.clone() }, &case) {
                    continue;
                }
                Some(big)
            } else {
                build_state(&mut rn, &mut r, state, &text, &case)
            };
            if cur.is_none() {
                rn.end_case(&case);
                continue;
            }
            // four routes through the monitored step machinery
            for (i, route) in [0, 1, 2, 3, 2, 0].iter().enumerate() {
                let t = 2 + i;
                let op = match route {
                    0 => Op::Clone { t, src: 0 },
                    1 => Op::CloneFrom { t, src: 0 },
                    2 => Op::FromRef { t, src: 0 },
                    _ => Op::ToLeanLean { t, src: 0, try_: i % 2 == 0 },
                };
                if !rn.apply(op, &case) {
                    break;
                }
            }
            // clone_from onto occupied slots (destination releases what it had)
            let _ = rn.apply(Op::FromStr { t: 7, s: "a destination that owns a heap buffer alone".into() }, &case)
                && rn.apply(Op::CloneFrom { t: 7, src: 0 }, &case)
                && rn.apply(Op::CloneFrom { t: 3, src: 0 }, &case)
                && rn.apply(Op::Drop { t: 0 }, &case)
                && rn.apply(Op::Push { t: 2, c: '!', try_: false }, &case)
                && rn.apply(Op::Drop { t: 2 }, &case);
            // mass cloning outside the pool: counter must stay at zero, refcount must follow
            if let Some(src) = rn.pool.slots[3].as_ref() {
                for &n in counts {
                    let c0 = shim::counts();
                    let rc0 = src.verif_refcount();
                    let copies: Vec<LeanString> = (0..n).map(|_| src.clone()).collect();
                    let d = shim::delta(c0, shim::counts());
                    let mut bad = None;
                    if d.total() != 0 {
                        bad = Some(format!("{n} clones issued {} allocator requests", d.total()));
                    }
                    if let (Some(a0), Some(a1)) = (rc0, src.verif_refcount()) {
                        if a1 != a0 + n {
                            bad = Some(format!("refcount {a1} after {n} clones of a buffer with refcount {a0}"));
                        }
                    }
                    if copies.iter().any(|c| c.as_ptr() != src.as_ptr() && kind_of(src) != Kind::Inline) {
                        bad = Some("a copy does not point at the source's bytes".into());
                    }
                    if copies.iter().any(|c| c != src) {
                        bad = Some("a copy differs from the source".into());
                    }
                    drop(copies);
                    let d2 = shim::delta(c0, shim::counts());
                    if d2.total() != 0 || src.verif_refcount() != rc0 {
                        bad = Some(format!("after dropping {n} clones: {} requests, refcount {:?} (was {:?})", d2.total(), src.verif_refcount(), rc0));
                    }
                    rn.ex.cov.hit(8, mix(0x808, mix(len as u64, mix(state as u64, n as u64))), || format!("{n} clones of a {len}-byte {:?} string", state));
                    if let Some(m) = bad {
                        emit_viol_case("clones", &Viol { prop: 8, monitor: "clone-o1", msg: m }, seed, &case, &rn.log);
                        rn.nviol += 1;
                    }
                }
            }
            rn.end_case(&case);
        }
    }
    rn.finish(a, None, vec![]);
}

// ---------------------------------------------------------------------------------------------
// C09: construction sweep (every length 0..=40, every route, all 192 final bytes of 16-byte texts)

pub fn engine_construct(a: &Args) {
    crate::install_shim(a);
    let seed = a.num("seed", 1);
    let mut r = Rng::new(seed);
    let mut rn = Runner::new("construct", seed);
    rn.set_decides(a);
    let reps = a.num("reps", 4);
    let mk_ops = |t: usize, s: &String| -> Vec<Op> {
        vec![
            Op::FromStr { t, s: s.clone() },
            Op::FromString { t, s: s.clone() },
            Op::FromStringRef { t, s: s.clone() },
            Op::FromBox { t, s: s.clone() },
            Op::FromCowB { t, s: s.clone() },
            Op::FromCowO { t, s: s.clone() },
            Op::Parse { t, s: s.clone() },
            Op::FromUtf8 { t, s: s.clone() },
            Op::FromUtf8Unchecked { t, s: s.clone() },
            Op::ToLean { t, v: Tls::Str(s.clone()), try_: false },
            Op::ToLean { t, v: Tls::Str(s.clone()), try_: true },
        ]
    };
    let mut shard = Shard::new(a);
    // (a) all lengths x routes
    for len in 0..=40usize {
        for _ in 0..reps {
            if !shard.take() {
                continue;
            }
            let s = gen_text(&mut r, len);
            let case = format!("len={len}");
            rn.announce(a, &case);
            for (i, op) in mk_ops(0, &s).into_iter().enumerate() {
                let mut op = op;
                // spread over slots so that some constructions are reassignments
                let t = i % NSLOTS;
                set_target(&mut op, t);
                if !rn.apply(op, &case) {
                    break;
                }
            }
            rn.end_case(&case);
        }
    }
    // (b) 16-byte texts with every legal final byte
    let mut finals = 0u64;
    for last in 0u32..=0x7F {
        if !shard.take() {
            continue;
        }
        let mut s = gen_text(&mut r, 15);
        s.push(char::from_u32(last).unwrap());
        finals += 1;
        run_final(&mut rn, &s, &mk_ops, a);
    }
    for cont in 0x80u8..=0xBF {
        // last continuation byte of a 2-, 3- and 4-byte char
        for width in [2usize, 3, 4] {
            if !shard.take() {
                continue;
            }
            let c = match width {
                2 => char::from_u32(((0xC3u32 & 0x1F) << 6) | (cont as u32 & 0x3F)),
                3 => char::from_u32(((0xE2u32 & 0x0F) << 12) | (0x82 & 0x3F) << 6 | (cont as u32 & 0x3F)),
                _ => char::from_u32(((0xF0u32 & 0x07) << 18) | (0x9F & 0x3F) << 12 | (0xA6 & 0x3F) << 6 | (cont as u32 & 0x3F)),
            };
            let Some(c) = c else { continue };
            let mut s = gen_text(&mut r, 16 - width);
            s.push(c);
            assert_eq!(s.len(), 16);
            assert_eq!(*s.as_bytes().last().unwrap(), cont);
            if width == 2 {
                finals += 1;
            }
            run_final(&mut rn, &s, &mk_ops, a);
        }
    }
    rn.count("final_bytes_covered", finals);
    // (c) chars, bools, integers by digit count
    let case = "scalars".to_string();
    for c in W1.iter().chain(W2).chain(W3).chain(W4).filter(|_| a.num("mod", 1) <= 1) {
        rn.apply(Op::FromChar { t: 0, c: *c }, &case);
        rn.apply(Op::ToLean { t: 1, v: Tls::Char(*c), try_: false }, &case);
    }
    rn.apply(Op::ToLean { t: 0, v: Tls::Bool(true), try_: false }, &case);
    rn.apply(Op::ToLean { t: 0, v: Tls::Bool(false), try_: true }, &case);
    rn.end_case(&case);
    for digits in 1..=39u32 {
        if !shard.take() {
            continue;
        }
        for _ in 0..reps * 3 {
            let lo: i128 = if digits == 1 { 0 } else { 10i128.pow(digits - 1) };
            let hi: i128 = if digits >= 39 { i128::MAX } else { 10i128.pow(digits) - 1 };
            let span = (hi - lo) as u128;
            let x = lo + (((r.next() as u128) << 64 | r.next() as u128) % (span + 1)) as i128;
            let x = match r.below(4) {
                0 => lo,
                1 => hi,
                _ => x,
            };
            for ty in INT_TYS {
                let fits = match ty {
                    IntTy::I8 => x <= i8::MAX as i128,
                    IntTy::U8 => x <= u8::MAX as i128,
                    IntTy::I16 => x <= i16::MAX as i128,
                    IntTy::U16 => x <= u16::MAX as i128,
                    IntTy::I32 => x <= i32::MAX as i128,
                    IntTy::U32 => x <= u32::MAX as i128,
                    IntTy::I64 | IntTy::Isize => x <= i64::MAX as i128,
                    IntTy::U64 | IntTy::Usize => x <= u64::MAX as i128,
                    IntTy::I128 => true,
                    IntTy::U128 => true,
                };
                if !fits {
                    continue;
                }
                let signed = matches!(ty, IntTy::I8 | IntTy::I16 | IntTy::I32 | IntTy::I64 | IntTy::I128 | IntTy::Isize);
                let vals: &[i128] = if signed { &[x, -x] } else { &[x] };
                for &v in vals {
                    if !rn.apply(Op::ToLean { t: r.below(3), v: Tls::Int(v, ty), try_: r.chance(1, 2) }, "ints") {
                        break;
                    }
                }
            }
        }
        rn.end_case("ints");
    }
    rn.finish(
        a,
        Some("all 192 legal final bytes of 16-byte texts (0x00-0x7F, and 0x80-0xBF as the last byte of a 2-, 3- and 4-byte char) x 11 text routes; every length 0..=40 x 11 routes"),
        vec![],
    );
}

fn run_final(rn: &mut Runner, s: &String, mk_ops: &dyn Fn(usize, &String) -> Vec<Op>, a: &Args) {
    let case = format!("final byte {:#04x}", s.as_bytes()[15]);
    rn.announce(a, &case);
    for (i, op) in mk_ops(0, s).into_iter().enumerate() {
        let mut op = op;
        set_target(&mut op, i % 3);
        if !rn.apply(op, &case) {
            return;
        }
    }
    // edits that keep the 16 bytes (pop then push back the same char), clone, option round trip
    let last = s.chars().last().unwrap();
    let _ = rn.apply(Op::Pop { t: 0, try_: false }, &case)
        && rn.apply(Op::Push { t: 0, c: last, try_: false }, &case)
        && rn.apply(Op::Clone { t: 4, src: 0 }, &case)
        && rn.apply(Op::OptionRoundTrip { t: 4 }, &case)
        && rn.apply(Op::Truncate { t: 4, n: 16 - last.len_utf8(), try_: true }, &case)
        && rn.apply(Op::InsertStr { t: 4, i: 0, s: last.to_string(), try_: false }, &case);
    // the same 16 bytes arriving from the heap (shrink into inline storage) and from a static text
    let _ = rn.apply(Op::WithCap { t: 5, n: 40, try_: false }, &case)
        && rn.apply(Op::PushStr { t: 5, s: s.clone(), try_: false }, &case)
        && rn.apply(Op::Clone { t: 6, src: 5 }, &case)
        && rn.apply(Op::ShrinkFit { t: 5, try_: false }, &case)
        && rn.apply(Op::ShrinkTo { t: 6, n: 3, try_: true }, &case)
        && rn.apply(Op::Remove { t: 5, i: 0, try_: false }, &case)
        && rn.apply(Op::Retain { t: 6, salt: 8, try_: false }, &case);
    let id = register_static(s);
    let mut longer = s.clone();
    longer.push_str("+tail");
    let id2 = register_static(&longer);
    let _ = rn.apply(Op::FromStatic { t: 7, id }, &case)
        && rn.apply(Op::FromStatic { t: 3, id: id2 }, &case)
        && rn.apply(Op::Truncate { t: 3, n: 16, try_: false }, &case)
        && rn.apply(Op::Reserve { t: 3, n: 0, try_: false }, &case)
        && rn.apply(Op::OptionRoundTrip { t: 3 }, &case);
    rn.end_case(&case);
}

pub fn set_target(op: &mut Op, nt: usize) {
    use Op::*;
    match op {
        FromStr { t, .. }
        | FromString { t, .. }
        | FromStringRef { t, .. }
        | FromBox { t, .. }
        | FromCowB { t, .. }
        | FromCowO { t, .. }
        | Parse { t, .. }
        | FromUtf8 { t, .. }
        | FromUtf8Unchecked { t, .. }
        | ToLean { t, .. } => *t = nt,
        _ => {}
    }
}

// ---------------------------------------------------------------------------------------------
// C12: push loops (request count and total bytes), growth table through the step machinery

pub fn engine_growth(a: &Args) {
    crate::install_shim(a);
    let seed = a.num("seed", 1);
    let mut r = Rng::new(seed);
    let mut rn = Runner::new("growth", seed);
    rn.set_decides(a);
    let max_n = a.num("max-n", 4_000_000) as usize;
    let mut shard = Shard::new(a);
    // (a) growth events with chosen (L, a)
    let ls: Vec<usize> = vec![0, 1, 7, 15, 16, 17, 18, 31, 32, 33, 63, 64, 100, 101, 255, 1000, 4097, 65536, 1 << 20]
        .into_iter()
        .filter(|&l| l <= max_n)
        .collect();
    for &l in &ls {
        for state in [TState::Inline, TState::Inline16, TState::Static, TState::HeapUnique, TState::HeapSpare, TState::HeapShared, TState::HeapSharedShorter] {
            if !shard.take() {
                continue;
            }
            let adds = [1usize, 2, 3, 4, (l / 2).saturating_sub(1), l / 2, l / 2 + 1, l, 2 * l];
            for &add in &adds {
                if add == 0 || add > (1 << 20) {
                    continue;
                }
                for opk in 0..4 {
                    let case = format!("L={l} add={add} state={state:?} op={opk}");
                    rn.announce(a, &case);
                    let ok = if l <= 40 {
                        let text = gen_text(&mut r, l);
                        build_state(&mut rn, &mut r, state, &text, &case).is_some()
                    } else {
                        if !matches!(state, TState::HeapUnique | TState::HeapShared | TState::Static) {
                            continue;
                        }
                        let big = gen_text(&mut r, l);
                        match state {
                            TState::Static => {
                                let id = register_static(&big);
                                rn.apply(Op::FromStatic { t: 0, id }, &case)
                            }
                            TState::HeapShared => rn.apply(Op::FromString { t: 0, s: big }, &case) && rn.apply(Op::Clone { t: 1, src: 0 }, &case),
                            _ => rn.apply(Op::FromString { t: 0, s: big }, &case),
                        }
                    };
                    if ok {
                        let cur_len = rn.pool.model[0].as_ref().map(|m| m.len()).unwrap_or(0);
                        let s = gen_text(&mut r, add);
                        let idx = rn.pool.model[0].as_ref().map(|m| m.floor_char_boundary(cur_len / 2)).unwrap_or(0);
                        let op = match opk {
                            0 => Op::PushStr { t: 0, s, try_: false },
                            1 => Op::Reserve { t: 0, n: add, try_: true },
                            2 => Op::InsertStr { t: 0, i: idx, s, try_: false },
                            _ => Op::AddAssign { t: 0, s },
                        };
                        if rn.apply(op, &case) {
                            // and one more byte beyond the new capacity
                            let cap = rn.pool.slots[0].as_ref().map(|s| s.capacity()).unwrap_or(0);
                            let len = rn.pool.model[0].as_ref().map(|m| m.len()).unwrap_or(0);
                            if cap - len < 4096 {
                                let fill = "f".repeat(cap - len);
                                let _ = rn.apply(Op::PushStr { t: 0, s: fill, try_: false }, &case) && rn.apply(Op::Push { t: 0, c: 'g', try_: false }, &case);
                            }
                        }
                    }
                    rn.end_case(&case);
                }
            }
        }
    }
    // (b) push-one-char loops
    let ns: Vec<usize> = [17usize, 100, 1000, 10_000, 100_000, 1_000_000, 4_000_000].into_iter().filter(|&n| n <= max_n).collect();
    for &n in &ns {
        for ch in ['a', '𝄞'] {
            let case = format!("push loop n={n} char={ch:?}");
            rn.announce(a, &case);
            let c0 = shim::counts();
            let mut s = LeanString::new();
            let mut m = 0usize;
            let mut cut_short = false;
            for i in 0..n {
                s.push(ch);
                m += ch.len_utf8();
                // a broken growth rule makes this loop quadratic: stop as soon as the verdict is clear
                if i % 4096 == 4095 {
                    let dd = shim::delta(c0, shim::counts());
                    if dd.alloc + dd.realloc > 400 {
                        cut_short = true;
                        break;
                    }
                }
            }
            let d = shim::delta(c0, shim::counts());
            let bytes = m;
            let bound = {
                // number of growth steps from 16 at factor 1.5 until >= bytes, plus slack
                let mut c = 16f64;
                let mut k = 0u64;
                while (c as usize) < bytes {
                    c *= 1.5;
                    k += 1;
                }
                k + 3
            };
            let mut bad = None;
            if d.alloc + d.realloc > bound {
                bad = Some(format!("{} allocator requests for {n} pushes ({} bytes); amortised bound is {}", d.alloc + d.realloc, bytes, bound));
            }
            // sum of a 1.5x geometric series of capacities <= 3 * final capacity <= 4.5 * n (+ headers)
            if d.bytes > 5 * bytes as u64 + 1024 {
                bad = Some(format!("{} bytes requested in total for a {}-byte text (bound 5n+1024)", d.bytes, bytes));
            }
            if cut_short {
                bad = Some(format!("{} allocator requests after only {} of {n} pushes; amortised bound for the whole loop is {}", d.alloc + d.realloc, bytes / ch.len_utf8(), bound));
            } else if s.len() != bytes || s.capacity() > bytes + bytes / 2 + 16 {
                bad = Some(format!("after the loop len {} capacity {} for {} bytes", s.len(), s.capacity(), bytes));
            }
            rn.hit(mix(0x1212, mix(n as u64, ch as u64)), || format!("{n} pushes of {ch:?}: {} requests, {} bytes requested, final capacity {}", d.alloc + d.realloc, d.bytes, s.capacity()));
            rn.count("push_loop_chars", n as u64);
            drop(s);
            if let Some(msg) = bad {
                emit_viol_case("growth", &Viol { prop: 12, monitor: "push-loop", msg }, seed, &case, &[]);
                rn.nviol += 1;
            }
            rn.end_case(&case);
        }
    }
    rn.finish(a, None, vec![]);
}

// ---------------------------------------------------------------------------------------------
// C13: shrink table

pub fn engine_shrink(a: &Args) {
    crate::install_shim(a);
    let seed = a.num("seed", 1);
    let mut r = Rng::new(seed);
    let mut rn = Runner::new("shrink", seed);
    rn.set_decides(a);
    let table = size_table();
    let lens = [0usize, 1, 5, 15, 16, 17, 18, 30, 100, 333];
    let caps_rel = [0usize, 1, 2, 10, 20, 100, 900];
    let mut shard = Shard::new(a);
    for &len in &lens {
        for &extra in &caps_rel {
            let cap = len + extra;
            for sharing in 0..4 {
                if !shard.take() {
                    continue;
                }
                let mut ms: Vec<usize> = vec![0, len.saturating_sub(1), len, len + 1, cap.saturating_sub(1), cap, cap + 1, 16, 17, (len + cap) / 2];
                for _ in 0..4 {
                    ms.push(*r.pick(&table));
                }
                for m in ms {
                    for fit in [false, true] {
                        let case = format!("len={len} cap={cap} m={m} sharing={sharing} fit={fit}");
                        rn.announce(a, &case);
                        let text = gen_text(&mut r, len);
                        let mut ok = rn.apply(Op::WithCap { t: 0, n: cap, try_: false }, &case);
                        if ok && !text.is_empty() {
                            ok = rn.apply(Op::PushStr { t: 0, s: text.clone(), try_: false }, &case);
                        }
                        if ok && sharing >= 1 {
                            ok = rn.apply(Op::Clone { t: 1, src: 0 }, &case);
                        }
                        if ok && sharing == 2 && len > 0 {
                            // sibling shorter than target
                            let cut = text.floor_char_boundary(len / 2);
                            ok = rn.apply(Op::Truncate { t: 1, n: cut, try_: false }, &case);
                        }
                        if ok && sharing == 3 && len > 0 {
                            // target shorter than sibling
                            let cut = text.floor_char_boundary(len / 2);
                            ok = rn.apply(Op::Truncate { t: 0, n: cut, try_: false }, &case);
                        }
                        if ok {
                            let op = if fit { Op::ShrinkFit { t: 0, try_: m % 2 == 0 } } else { Op::ShrinkTo { t: 0, n: m, try_: m % 2 == 1 } };
                            if rn.apply(op, &case) {
                                aftermath(&mut rn, &mut r, &case);
                            }
                        }
                        rn.end_case(&case);
                    }
                }
            }
        }
    }
    // static and inline targets
    for id in 0..BASE_STATICS {
        for m in [0usize, 5, 16, 17, 1000, usize::MAX] {
            let case = format!("static#{id} m={m}");
            let _ = rn.apply(Op::FromStatic { t: 0, id }, &case) && rn.apply(Op::ShrinkTo { t: 0, n: m, try_: false }, &case) && rn.apply(Op::ShrinkFit { t: 0, try_: true }, &case);
            rn.end_case(&case);
        }
    }
    rn.finish(a, None, vec![]);
}

// ---------------------------------------------------------------------------------------------
// C17: equivalence classes of representations of one text

pub fn engine_eqclass(a: &Args) {
    crate::install_shim(a);
    let seed = a.num("seed", 1);
    let mut r = Rng::new(seed);
    let mut rn = Runner::new("eqclass", seed);
    rn.set_decides(a);
    rn.ex.cmp_every = 1;
    let rounds = a.num("rounds", 200);
    for round in 0..rounds {
        let len = match r.below(8) {
            0 => 0,
            1 => 16,
            2 => 15,
            3 => 17,
            _ => r.below(40),
        };
        let text = gen_text(&mut r, len);
        let case = format!("round={round} text={text:?}");
        rn.announce(a, &case);
        // route 0: fresh
        let mut ok = rn.apply(Op::FromStr { t: 0, s: text.clone() }, &case);
        // route 1: longer then pop back (stale bytes behind the end)
        if ok {
            let mut longer = text.clone();
            longer.push_str("€x");
            ok = rn.apply(Op::FromStr { t: 1, s: longer }, &case) && rn.apply(Op::Pop { t: 1, try_: false }, &case) && rn.apply(Op::Pop { t: 1, try_: false }, &case);
        }
        // route 2: heap over-allocated
        if ok {
            ok = rn.apply(Op::WithCap { t: 2, n: len + 30, try_: false }, &case) && (text.is_empty() || rn.apply(Op::PushStr { t: 2, s: text.clone(), try_: false }, &case));
        }
        // route 3: heap shared with a longer sibling
        if ok {
            let mut longer = text.clone();
            longer.push_str("-a longer sibling text");
            ok = rn.apply(Op::FromStr { t: 7, s: longer }, &case) && rn.apply(Op::Clone { t: 3, src: 7 }, &case) && rn.apply(Op::Truncate { t: 3, n: text.len(), try_: false }, &case);
        }
        // route 4: static (if > 16) and static truncated
        if ok {
            let id = register_static(&text);
            ok = rn.apply(Op::FromStatic { t: 4, id }, &case);
            if ok {
                let mut longer = text.clone();
                longer.push_str("~~~~~~~~~~~~~~~~~~");
                let id2 = register_static(&longer);
                ok = rn.apply(Op::FromStatic { t: 5, id: id2 }, &case) && rn.apply(Op::Truncate { t: 5, n: text.len(), try_: true }, &case);
            }
        }
        // route 5: neighbour differing in the last byte / length
        if ok {
            let mut nb = text.clone();
            match r.below(3) {
                0 => nb.push('a'),
                1 => {
                    nb.pop();
                }
                _ => {
                    nb.pop();
                    nb.push(if text.ends_with('b') { 'c' } else { 'b' });
                }
            }
            ok = rn.apply(Op::FromStr { t: 6, s: nb }, &case);
        }
        if ok {
            // one more step so that the pairwise monitor sees the complete set
            let _ = rn.apply(Op::OptionRoundTrip { t: 0 }, &case);
        }
        rn.end_case(&case);
    }
    rn.finish(a, None, vec![]);
}

// ---------------------------------------------------------------------------------------------
// C01/C02/C03: very long texts around the widths a length field could be squeezed into

pub fn engine_huge(a: &Args) {
    crate::install_shim(a);
    let seed = a.num("seed", 1);
    let mut r = Rng::new(seed);
    let mut rn = Runner::new("huge", seed);
    rn.set_decides(a);
    let max = a.num("max", (1 << 25) + 3) as usize;
    let lens: Vec<usize> = [255usize, 256, 65535, 65536, 65537, 1 << 20, (1 << 24) - 1, 1 << 24, (1 << 24) + 1000, (1 << 25) + 3]
        .into_iter()
        .filter(|&l| l <= max)
        .collect();
    for &len in &lens {
        let case = format!("len={len}");
        rn.announce(a, &case);
        // non-periodic content so that a short or shifted copy cannot go unnoticed
        let mut text = String::with_capacity(len + 8);
        let mut i = 0u64;
        while text.len() < len {
            let room = len - text.len();
            let c = if room >= 4 && i % 7 == 0 { '𝄞' } else if room >= 3 && i % 5 == 0 { '€' } else if room >= 2 && i % 3 == 0 { 'é' } else { (b'a' + (mix(i, 77) % 26) as u8) as char };
            text.push(c);
            i += 1;
        }
        let mid = text.floor_char_boundary(len / 2);
        let q3 = text.floor_char_boundary(len / 4 * 3);
        let ops: Vec<Op> = vec![
            Op::FromString { t: 0, s: text.clone() },
            Op::Clone { t: 1, src: 0 },
            Op::Reserve { t: 1, n: 0, try_: false },      // un-share by copy
            Op::Push { t: 1, c: '!', try_: false },
            Op::Clone { t: 2, src: 1 },
            Op::Retain { t: 2, salt: (r.next() | 2) & !5, try_: false }, // shared: copy, then compact
            Op::Clone { t: 3, src: 0 },
            Op::InsertStr { t: 3, i: mid, s: "<-inserted->".into(), try_: true },
            Op::Clone { t: 4, src: 0 },
            Op::Remove { t: 4, i: 0, try_: false },
            Op::Clone { t: 5, src: 0 },
            Op::Truncate { t: 5, n: q3, try_: false },      // shorter than its sibling
            Op::PushStr { t: 5, s: "tail after truncate".into(), try_: false },
            Op::Clone { t: 6, src: 0 },
            Op::ShrinkTo { t: 6, n: 3, try_: false },
            Op::Reserve { t: 0, n: len / 2 + 9, try_: true },
            Op::ShrinkFit { t: 0, try_: false },
            Op::Extend { t: 0, kind: ItemKind::Str, items: vec!["x".into(), "yz€".into()], hint: None },
            Op::CloneFrom { t: 6, src: 0 },
            Op::Pop { t: 6, try_: false },
            Op::Clear { t: 1 },
        ];
        for op in ops {
            if !rn.apply(op, &case) {
                break;
            }
        }
        rn.hit(mix(0x4855, len as u64), || format!("21-op un-share/mutate sequence on a {len}-byte text"));
        rn.end_case(&case);
    }
    rn.finish(a, None, vec![]);
}
