//! C04: small concurrent programs over handles of one shared buffer.
//!
//! Under Miri this is the race / use-after-free / leak oracle (the interpreter's vector-clock
//! race detector with weak-memory emulation decides; the harness only generates programs,
//! injects yields at the hook points and compares each thread's results with its own sequential
//! String model). Natively (SHADOW shim, real threads) it looks for actual double frees / use
//! after free / leaks.

use crate::ops::retain_pred;
use crate::shim;
use crate::util::*;
use crate::{Args, emit};
use lean_string::{LeanString, ToLeanString};
use std::cell::RefCell;
use std::sync::Barrier;
use std::sync::atomic::{AtomicU64, AtomicUsize, Ordering::Relaxed};

#[derive(Clone, Debug)]
pub enum COp {
    /// h1 = h0.clone()
    Clone,
    /// h1.clone_from(&h0) (or h1 = h0.clone() if h1 is empty)
    CloneFrom,
    /// h1 = h0.to_lean_string()
    ToLean,
    /// swap the two local handles
    Swap,
    DropH0,
    DropH1,
    Read,
    /// give the other threads a turn (n scheduler yields) before the next operation
    Pause(u8),
    Push(char),
    PushStr(String),
    Insert(u8, char),
    InsertStr(u8, String),
    Remove(u8),
    Retain(u64),
    Truncate(u8),
    Pop,
    Clear,
    Reserve(usize),
    ShrinkTo(usize),
    /// borrowed mode: h0 = shared.clone()
    CloneShared,
    /// borrowed mode: read through the shared reference
    ReadShared,
    /// borrowed mode: h0.clone_from(shared) (h0 may be empty, own another buffer, or the same one)
    CloneFromShared,
    /// borrowed mode: h1 = shared.to_lean_string()
    ToLeanShared,
}

#[derive(Clone, Debug)]
pub struct Program {
    pub base: String,
    pub spare: usize,
    pub borrowed: bool,
    /// per thread: (pre-truncate fraction for its clone, ops)
    pub threads: Vec<(Option<u8>, Vec<COp>)>,
    /// main keeps (and finally drops) the base handle while the threads run
    pub main_keeps_base: bool,
}

fn gen_cop(r: &mut Rng, borrowed: bool) -> COp {
    match r.below(if borrowed { 33 } else { 27 }) {
        0..=2 => COp::Clone,
        3 => COp::CloneFrom,
        4 => COp::ToLean,
        5 => COp::Swap,
        6..=8 => COp::DropH0,
        9 => COp::DropH1,
        10 => COp::Read,
        11..=13 => COp::Push(gen_char(r)),
        14 => {
            let l = r.range(1, 24);
            COp::PushStr(gen_text(r, l))
        }
        15 => COp::Insert(r.below(256) as u8, gen_char(r)),
        16 => {
            let l = r.range(1, 6);
            COp::InsertStr(r.below(256) as u8, gen_text(r, l))
        }
        17..=18 => COp::Remove(r.below(256) as u8),
        19..=20 => COp::Retain(r.next()),
        21 => COp::Truncate(r.below(256) as u8),
        22 => COp::Pop,
        23 => COp::Clear,
        24 => COp::Reserve([0usize, 1, 8, 40, 200][r.below(5)]),
        25..=26 => COp::ShrinkTo([0usize, 17, 20, 64][r.below(4)]),
        27..=28 => COp::CloneShared,
        29 => COp::ReadShared,
        30..=31 => COp::CloneFromShared,
        _ => COp::ToLeanShared,
    }
}

pub fn gen_program(r: &mut Rng, directed_permille: usize, hammer_permille: usize) -> Program {
    let len = r.range(17, 64);
    let base = gen_text(r, len);
    if r.below(1000) < hammer_permille {
        // hammer (native runs): every thread takes and releases references to the one buffer in a tight
        // loop, so that increments and decrements overlap in time thousands of times; then each thread
        // edits its own handle. A lost or torn count update shows as a leaked / early-freed buffer or as
        // one thread's edit appearing in another thread's text.
        let nthreads = r.range(2, 3);
        let k = r.range(40, 160);
        let mut threads = Vec::new();
        for _ in 0..nthreads {
            let mut ops = Vec::with_capacity(2 * k + 2);
            for _ in 0..k {
                ops.push(COp::Clone);
                ops.push(COp::DropH1);
            }
            ops.push([COp::Push('h'), COp::Remove(0), COp::Insert(0, 'i'), COp::Retain(6), COp::Pop][r.below(5)].clone());
            ops.push(COp::Read);
            threads.push((None, ops));
        }
        return Program { base, spare: [0usize, 8][r.below(2)], borrowed: false, threads, main_keeps_base: r.chance(1, 2) };
    }
    if r.below(1000) < directed_permille {
        // directed pair: one thread reads and gives up its handle, the other runs ONE operation that
        // decides between "copy" and "in place" by looking at the count - every such decision site in turn.
        // With the count going 2 -> 1 under the operation, the in-place branch is only safe if the
        // look synchronises with the other thread's release.
        let sites = [
            COp::Reserve(1),
            COp::Reserve(40),
            COp::Push('!'),
            COp::PushStr("-tail".into()),
            COp::Insert(0, 'i'),
            COp::Remove(0),
            COp::Retain(6),
            COp::Truncate(200),
            COp::Pop,
            COp::Clear,
            COp::ShrinkTo(0),
            COp::ShrinkTo(17),
            COp::ShrinkTo(len + 3),
            // the sites whose in-place branch writes over, moves or frees bytes the other thread may
            // just have read are drawn twice as often: only there does a look that fails to
            // synchronise with the release become a conflicting pair of accesses
            COp::Insert(0, 'j'),
            COp::Remove(0),
            COp::Retain(6),
            COp::ShrinkTo(0),
            COp::Reserve(41),
        ];
        let op = sites[r.below(sites.len())].clone();
        let mut giver = vec![COp::DropH0];
        if r.chance(3, 4) {
            giver.insert(0, COp::Read);
        }
        // without a pause the operation's look at the count always comes first (nothing precedes it)
        let mut threads = vec![(None, giver), (None, vec![COp::Pause(r.below(4) as u8), op])];
        if r.chance(1, 2) {
            threads.swap(0, 1);
        }
        return Program { base, spare: [8usize, 40, 0][r.below(3)], borrowed: false, threads, main_keeps_base: false };
    }
    let spare = [0usize, 0, 8, 40][r.below(4)];
    let borrowed = r.chance(1, 4);
    let nthreads = r.range(2, 3);
    let mut threads = Vec::new();
    for _ in 0..nthreads {
        let pre = if r.chance(1, 3) { Some(r.below(256) as u8) } else { None };
        let nops = r.range(1, 4);
        let mut ops: Vec<COp> = (0..nops).map(|_| gen_cop(r, borrowed)).collect();
        // bias: programs in which a drop races with a copy/in-place write
        if r.chance(1, 3) {
            ops[0] = COp::DropH0;
        } else if r.chance(1, 3) {
            let cands = [COp::Push('!'), COp::Remove(0), COp::Retain(6), COp::Reserve(40), COp::ShrinkTo(0)];
            ops[0] = cands[r.below(cands.len())].clone();
        }
        if borrowed && r.chance(1, 2) {
            // several threads cloning the same (initially unique) handle through &LeanString at once
            ops[0] = COp::CloneShared;
        }
        threads.push((pre, ops));
    }
    Program { base, spare, borrowed, threads, main_keeps_base: r.chance(1, 3) }
}

// ---------------------------------------------------------------------------------------------
// trace points

static SEQ: AtomicU64 = AtomicU64::new(0);
static YIELD_PERMILLE: AtomicUsize = AtomicUsize::new(0);
static SPIN: AtomicUsize = AtomicUsize::new(0);
pub static SITE_HITS: [AtomicU64; 16] = [const { AtomicU64::new(0) }; 16];

thread_local! {
    static TLOG: RefCell<Vec<(u64, u32)>> = const { RefCell::new(Vec::new()) };
    static TRNG: RefCell<Rng> = RefCell::new(Rng::new(0));
}

fn point_cb(site: u32, _addr: usize) {
    let seq = SEQ.fetch_add(1, Relaxed);
    SITE_HITS[(site as usize).min(15)].fetch_add(1, Relaxed);
    TLOG.with(|l| l.borrow_mut().push((seq, site)));
    let pm = YIELD_PERMILLE.load(Relaxed);
    if pm > 0 {
        let n = TRNG.with(|r| {
            let mut r = r.borrow_mut();
            if r.below(1000) < pm { 1 + r.below(2) } else { 0 }
        });
        for _ in 0..n {
            std::thread::yield_now();
        }
        let spin = SPIN.load(Relaxed);
        if n > 0 && spin > 0 {
            for _ in 0..spin {
                std::hint::spin_loop();
            }
        }
    }
}

// ---------------------------------------------------------------------------------------------

fn idx_of(m: &str, frac: u8, allow_end: bool) -> usize {
    let raw = m.len() * frac as usize / 255;
    let mut i = m.floor_char_boundary(raw.min(m.len()));
    if !allow_end && i >= m.len() && !m.is_empty() {
        i = m.char_indices().last().unwrap().0;
    }
    i
}

struct Local {
    h: [Option<LeanString>; 2],
    m: [Option<String>; 2],
}

fn check(l: &Local, what: &COp) -> Result<(), String> {
    for i in 0..2 {
        match (&l.h[i], &l.m[i]) {
            (Some(h), Some(m)) => {
                if h.as_bytes() != m.as_bytes() || h.len() != m.len() {
                    return Err(format!(
                        "after {what:?}: handle {i} reads {:?} but its own sequential model holds {:?}",
                        String::from_utf8_lossy(&h.as_bytes()[..h.len().min(80)]),
                        m
                    ));
                }
                if h.capacity() < h.len() {
                    return Err(format!("after {what:?}: capacity {} < len {}", h.capacity(), h.len()));
                }
            }
            (None, None) => {}
            _ => return Err(format!("after {what:?}: handle/model presence mismatch")),
        }
    }
    Ok(())
}

struct AssertSend<T>(T);
unsafe impl<T> Send for AssertSend<T> {}
impl<T> AssertSend<T> {
    fn take(self) -> T {
        self.0
    }
}

fn run_thread(tid: usize, seed: u64, mut l: Local, ops: &[COp], shared: Option<(&LeanString, &str)>, barrier: &Barrier) -> (Result<(), String>, Vec<(u64, u32)>) {
    TRNG.with(|r| *r.borrow_mut() = Rng::new(mix(seed, tid as u64)));
    TLOG.with(|l| l.borrow_mut().clear());
    barrier.wait();
    let mut res = Ok(());
    for op in ops {
        match op {
            COp::Clone => {
                if let Some(h0) = &l.h[0] {
                    l.h[1] = Some(h0.clone());
                    l.m[1] = l.m[0].clone();
                }
            }
            COp::CloneFrom => {
                if let Some(h0) = l.h[0].clone() {
                    match &mut l.h[1] {
                        Some(h1) => h1.clone_from(&h0),
                        None => l.h[1] = Some(h0.clone()),
                    }
                    l.m[1] = l.m[0].clone();
                }
            }
            COp::ToLean => {
                if let Some(h0) = &l.h[0] {
                    l.h[1] = Some(h0.to_lean_string());
                    l.m[1] = l.m[0].clone();
                }
            }
            COp::Swap => {
                l.h.swap(0, 1);
                l.m.swap(0, 1);
            }
            COp::DropH0 => {
                l.h[0] = None;
                l.m[0] = None;
            }
            COp::DropH1 => {
                l.h[1] = None;
                l.m[1] = None;
            }
            COp::Read => {}
            COp::Pause(n) => {
                for _ in 0..*n {
                    std::thread::yield_now();
                }
            }
            COp::CloneShared => {
                if let Some((s, m)) = shared {
                    l.h[0] = Some(s.clone());
                    l.m[0] = Some(m.to_string());
                }
            }
            COp::ReadShared => {
                if let Some((s, m)) = shared {
                    if s.as_str() != m {
                        res = Err(format!("shared reference reads {:?}, expected {:?}", s.as_str(), m));
                    }
                }
            }
            COp::CloneFromShared => {
                if let Some((s, m)) = shared {
                    match &mut l.h[0] {
                        Some(h0) => h0.clone_from(s),
                        None => l.h[0] = Some(s.clone()),
                    }
                    l.m[0] = Some(m.to_string());
                }
            }
            COp::ToLeanShared => {
                if let Some((s, m)) = shared {
                    l.h[1] = Some(s.to_lean_string());
                    l.m[1] = Some(m.to_string());
                }
            }
            _ => {
                if let (Some(h), Some(m)) = (&mut l.h[0], &mut l.m[0]) {
                    match op {
                        COp::Push(c) => {
                            h.push(*c);
                            m.push(*c)
                        }
                        COp::PushStr(s) => {
                            h.push_str(s);
                            m.push_str(s)
                        }
                        COp::Insert(f, c) => {
                            let i = idx_of(m, *f, true);
                            h.insert(i, *c);
                            m.insert(i, *c)
                        }
                        COp::InsertStr(f, s) => {
                            let i = idx_of(m, *f, true);
                            h.insert_str(i, s);
                            m.insert_str(i, s)
                        }
                        COp::Remove(f) => {
                            if !m.is_empty() {
                                let i = idx_of(m, *f, false);
                                let a = h.remove(i);
                                let b = m.remove(i);
                                if a != b {
                                    res = Err(format!("remove({i}) returned {a:?}, model {b:?}"));
                                }
                            }
                        }
                        COp::Retain(salt) => {
                            h.retain(retain_pred(*salt));
                            m.retain(retain_pred(*salt))
                        }
                        COp::Truncate(f) => {
                            let i = idx_of(m, *f, true);
                            h.truncate(i);
                            m.truncate(i)
                        }
                        COp::Pop => {
                            let a = h.pop();
                            let b = m.pop();
                            if a != b {
                                res = Err(format!("pop returned {a:?}, model {b:?}"));
                            }
                        }
                        COp::Clear => {
                            h.clear();
                            m.clear()
                        }
                        COp::Reserve(n) => {
                            h.reserve(*n);
                            if h.capacity() < h.len() + n {
                                res = Err("reserve postcondition".into());
                            }
                        }
                        COp::ShrinkTo(n) => h.shrink_to(*n),
                        _ => unreachable!(),
                    }
                }
            }
        }
        if res.is_ok() {
            res = check(&l, op);
        }
        if res.is_err() {
            break;
        }
    }
    drop(l);
    let log = TLOG.with(|l| std::mem::take(&mut *l.borrow_mut()));
    (res, log)
}

/// Runs one execution of `prog`. Returns (violation?, trace hash, number of trace events,
/// whether a release on one thread was followed by the free on another).
pub fn run_exec(prog: &Program, seed: u64) -> (Option<String>, u64, usize, bool) {
    SEQ.store(0, Relaxed);
    let c0 = shim::counts();
    let mut base = LeanString::with_capacity(prog.base.len() + prog.spare);
    base.push_str(&prog.base);
    let n = prog.threads.len();
    // handles for the threads
    let mut locals: Vec<Local> = Vec::new();
    for (pre, _) in &prog.threads {
        if prog.borrowed {
            locals.push(Local { h: [None, None], m: [None, None] });
        } else {
            let mut h = base.clone();
            let mut m = prog.base.clone();
            if let Some(f) = pre {
                let i = idx_of(&m, *f, true);
                h.truncate(i);
                m.truncate(i);
            }
            locals.push(Local { h: [Some(h), None], m: [Some(m), None] });
        }
    }
    let keep = prog.borrowed || prog.main_keeps_base;
    let base_opt = if keep { Some(base) } else { drop(base); None };
    let barrier = Barrier::new(n);
    let mut results: Vec<(Result<(), String>, Vec<(u64, u32)>)> = Vec::new();
    std::thread::scope(|s| {
        let shared = if prog.borrowed { base_opt.as_ref().map(|b| (b, prog.base.as_str())) } else { None };
        let mut joins = Vec::new();
        let mut it = locals.into_iter().enumerate();
        let (_, l0) = it.next().unwrap();
        for (tid, l) in it {
            let ops = &prog.threads[tid].1;
            let b = &barrier;
            // Whether LeanString is Send/Sync is decided by the compile-time probe of the C04 check
            // (harness/probe); the runner itself must keep building when those impls are missing,
            // otherwise every other property's check would be taken down with it.
            let w = AssertSend((l, shared));
            joins.push(s.spawn(move || {
                let (l, shared) = w.take();
                run_thread(tid, seed, l, ops, shared, b)
            }));
        }
        // the main thread is thread 0 of the program
        let r0 = run_thread(0, seed, l0, &prog.threads[0].1, shared, &barrier);
        results.push(r0);
        for j in joins {
            results.push(j.join().unwrap_or_else(|_| (Err("thread panicked".into()), Vec::new())));
        }
    });
    let mut viol = None;
    for (tid, (r, _)) in results.iter().enumerate() {
        if let Err(e) = r {
            viol = Some(format!("thread {tid}: {e}"));
            break;
        }
    }
    if let Some(b) = &base_opt {
        if viol.is_none() && b.verif_refcount() != Some(1) {
            viol = Some(format!(
                "after every other handle was dropped the kept handle's reference count is {:?} (expected 1): an increment or decrement was lost",
                b.verif_refcount()
            ));
        }
        if viol.is_none() && b.as_str() != prog.base {
            viol = Some(format!("the handle kept by the main thread reads {:?} after the threads ran, expected {:?}", b.as_str(), prog.base));
        }
    }
    drop(base_opt);
    // exactly-once release: every buffer the crate allocated has been returned
    let d = shim::delta(c0, shim::counts());
    if viol.is_none() && d.alloc != d.dealloc {
        viol = Some(format!("after all handles were dropped: {} allocations but {} deallocations", d.alloc, d.dealloc));
    }
    if viol.is_none() {
        for e in shim::take_errors() {
            viol = Some(format!("shadow heap: {e}"));
        }
        if shim::mode() == shim::Mode::Shadow && shim::live_count() != 0 {
            viol = Some(format!("{} block(s) still live after all handles were dropped", shim::live_count()));
            shim::forget_live();
        }
    }
    // trace census
    let mut all: Vec<(u64, usize, u32)> = Vec::new();
    for (tid, (_, log)) in results.iter().enumerate() {
        for (seq, site) in log {
            all.push((*seq, tid, *site));
        }
    }
    all.sort();
    let mut h = 0x7ace;
    let mut cross_free = false;
    let mut released_by: u64 = 0; // bitset of threads that started a release
    for (_, tid, site) in &all {
        h = mix(h, (*tid as u64) << 8 | *site as u64);
        if *site == 7 {
            released_by |= 1 << *tid;
        }
        if *site == 8 && released_by & !(1 << *tid) != 0 {
            // the free happens on a thread other than one that released earlier
            cross_free = true;
        }
    }
    (viol, h, all.len(), cross_free)
}

pub fn engine_conc(a: &Args) {
    crate::install_shim(a);
    let seed = a.num("seed", 1);
    let programs = a.num("programs", 20);
    let execs = a.num("execs", 4);
    let first = a.num("first-program", 0);
    let as_prop = a.num("prop", 4);
    YIELD_PERMILLE.store(a.num("yield-permille", 300) as usize, Relaxed);
    SPIN.store(a.num("spin", 0) as usize, Relaxed);
    lean_string::verif_hooks::set_point(Some(point_cb));
    let directed = a.num("directed-permille", 250) as usize;
    let hammer = a.num("hammer-permille", 0) as usize;
    let mut nviol = 0u64;
    let mut total_execs = 0u64;
    let mut distinct_traces = SigSet::default();
    let mut progs_multi = 0u64;
    let mut cross = 0u64;
    let mut events = 0u64;
    let mut samples: Vec<String> = Vec::new();
    let mut prog_sigs = SigSet::default();
    for p in first..first + programs {
        let mut r = Rng::new(mix(seed, p));
        let prog = gen_program(&mut r, directed, hammer);
        if samples.len() < 4 {
            samples.push(format!("{:?}", prog));
        }
        let mut traces = SigSet::default();
        for e in 0..execs {
            if a.flag("announce") {
                emit(&J::new().s("t", "hist").s("engine", "conc").n("hist", p).n("exec", e).s("program", &format!("{:?}", prog)).render());
            }
            let (v, h, nev, cf) = run_exec(&prog, mix(seed ^ 0xC0C0, p * 1000 + e));
            total_execs += 1;
            events += nev as u64;
            if cf {
                cross += 1;
            }
            traces.insert(h);
            distinct_traces.insert(mix(p, h));
            if let Some(msg) = v {
                nviol += 1;
                if nviol <= 5 {
                    emit(
                        &J::new()
                            .s("t", "viol")
                            .s("engine", "conc")
                            .n("prop", as_prop)
                            .s("monitor", "per-thread-model")
                            .s("msg", &format!("program {p} exec {e}: {msg}"))
                            .n("seed", seed)
                            .n("hist", p)
                            .s("case", &format!("{:?}", prog))
                            .render(),
                    );
                }
                break;
            }
        }
        if traces.len() >= 2 {
            progs_multi += 1;
        }
        prog_sigs.insert(mix(p, seed));
        if nviol > 20 {
            break;
        }
    }
    let sites = format!(
        "{{{}}}",
        (1..=8).map(|i| format!("\"site_{}\":{}", i, SITE_HITS[i].load(Relaxed))).collect::<Vec<_>>().join(",")
    );
    let counters = format!(
        "{{\"programs\":{},\"executions\":{},\"distinct_interleavings\":{},\"programs_with_2plus_interleavings\":{},\"executions_release_then_free_on_other_thread\":{},\"trace_events\":{}}}",
        programs,
        total_execs,
        distinct_traces.len(),
        progs_multi,
        cross,
        events
    );
    let ec = J::new()
        .n("evals", total_execs)
        .raw("sigs", jarr(distinct_traces.iter().take(30000).map(|s| s.to_string())))
        .raw("samples", jarr(samples.iter().map(|s| jstr(s))))
        .raw("counters", counters)
        .raw("info", format!("{{\"sites\":{}}}", sites));
    emit(&J::new().s("t", "stat").s("engine", "conc").n("seed", seed).n("violations", nviol).raw("ecov", ec.render()).render());
}
