mod big32;
mod galloc;
mod cmpmon;
mod conc;
mod engines;
mod explore;
mod genops;
mod ops;
mod shim;
mod sweeps;
mod util;

#[global_allocator]
static GLOBAL: galloc::Counting = galloc::Counting;

use explore::*;
use genops::Profile;
use util::*;

pub struct Args(Vec<String>);
impl Args {
    pub fn get(&self, k: &str) -> Option<&str> {
        let key = format!("--{k}");
        self.0.iter().rposition(|a| *a == key).and_then(|i| self.0.get(i + 1)).map(|s| s.as_str())
    }
    pub fn num(&self, k: &str, d: u64) -> u64 {
        self.get(k).map(|v| v.parse().expect("number")).unwrap_or(d)
    }
    pub fn flag(&self, k: &str) -> bool {
        let key = format!("--{k}");
        self.0.iter().any(|a| *a == key)
    }
}

pub fn install_shim(a: &Args) {
    let m = match a.get("shim").unwrap_or("shadow") {
        "off" => shim::Mode::Off,
        "count" => shim::Mode::Count,
        "track" => shim::Mode::Track,
        "shadow" => shim::Mode::Shadow,
        x => panic!("unknown shim mode {x}"),
    };
    shim::install(m);
    MAX_TEXT_LEN.store(a.num("max-len", 5000) as usize, std::sync::atomic::Ordering::Relaxed);
    let refuse = a.num("refuse-over", 1 << 28);
    shim::set_refuse_over(refuse as usize);
}

pub fn cov_json(cov: &Cov, only: &[usize], lite: bool) -> String {
    let props = jarr((1..NPROPS).filter(|p| only.is_empty() || only.contains(p)).map(|p| {
        let pc = &cov.props[p];
        J::new()
            .n("prop", p as u64)
            .n("evals", pc.evals)
            .n("distinct", pc.sigs.len() as u64)
            .raw("sigs", jarr(pc.sigs.iter().take(20000).map(|s| s.to_string())))
            .raw("samples", jarr(pc.samples.iter().map(|s| jstr(s))))
            .render()
    }));
    let monitors = format!(
        "{{{}}}",
        cov.monitors.iter().map(|(k, v)| format!("{}:[{},{}]", jstr(k), v.0, v.1)).collect::<Vec<_>>().join(",")
    );
    let counters = format!(
        "{{{}}}",
        cov.counters.iter().map(|(k, v)| format!("{}:{}", jstr(k), v)).collect::<Vec<_>>().join(",")
    );
    J::new()
        .n("steps", cov.steps)
        .n("histories", cov.histories)
        .raw("props", props)
        .raw("matrix", if lite { "{}".to_string() } else {
            let mut m: std::collections::BTreeMap<String, u64> = cov.matrix.clone();
            for (_, k, v) in cov.matrix_ix.iter() {
                *m.entry(k.clone()).or_insert(0) += *v;
            }
            jmap_u64(m.iter())
        })
        .raw("monitors", monitors)
        .raw("counters", counters)
        .s("digest", &format!("{:016x}", cov.digest))
        .render()
}

pub fn emit_viol_case(engine: &str, v: &Viol, seed: u64, case: &str, oplog: &[ops::Op]) {
    let tail: Vec<String> = oplog.iter().rev().take(40).rev().map(|s| jstr(&s.show())).collect();
    emit(
        &J::new()
            .s("t", "viol")
            .s("engine", engine)
            .n("prop", v.prop as u64)
            .s("monitor", v.monitor)
            .s("msg", &v.msg)
            .n("seed", seed)
            .s("case", case)
            .raw("oplog_tail", jarr(tail))
            .render(),
    );
}

#[allow(clippy::too_many_arguments)]
pub fn emit_viol_h(engine: &str, v: &Viol, seed: u64, hist: u64, profile: &str, extra: &str, oplog: &[ops::Op], replay_extra: Vec<String>) {
    let tail: Vec<String> = oplog.iter().rev().take(40).rev().map(|s| jstr(&s.show())).collect();
    emit(
        &J::new()
            .s("t", "viol")
            .s("engine", engine)
            .n("prop", v.prop as u64)
            .s("monitor", v.monitor)
            .s("msg", &v.msg)
            .n("seed", seed)
            .s("case", &format!("history {hist} ({profile}): {extra}"))
            .raw("replay_extra", jarr(replay_extra.iter().map(|s| jstr(s))))
            .raw("oplog_tail", jarr(tail))
            .render(),
    );
}

fn emit_viol(engine: &str, v: &Viol, seed: u64, hist: u64, profile: &str, extra: &str, oplog: &[ops::Op]) {
    let tail: Vec<String> = oplog.iter().rev().take(40).rev().map(|s| jstr(&s.show())).collect();
    emit(
        &J::new()
            .s("t", "viol")
            .s("engine", engine)
            .n("prop", v.prop as u64)
            .s("monitor", v.monitor)
            .s("msg", &v.msg)
            .n("seed", seed)
            .n("hist", hist)
            .s("profile", profile)
            .s("extra", extra)
            .n("oplog_len", oplog.len() as u64)
            .raw("oplog_tail", jarr(tail))
            .render(),
    );
}

pub fn cross_json(ex: &Explorer) -> String {
    let m = format!("{{{}}}", ex.cross.iter().map(|(k, v)| format!("{}:{}", jstr(k), v)).collect::<Vec<_>>().join(","));
    J::new().raw("counts", m).raw("samples", jarr(ex.cross_samples.iter().map(|s| jstr(s)))).render()
}

pub fn stat_props(a: &Args) -> Vec<usize> {
    a.get("stat-props").map(|s| s.split(',').filter_map(|x| x.parse().ok()).collect()).unwrap_or_default()
}

fn engine_explore(a: &Args) {
    install_shim(a);
    let seed = a.num("seed", 1);
    let profile = Profile::parse(a.get("profile").unwrap_or("default"));
    let histories = a.num("histories", 100);
    let steps = a.num("steps", 120) as usize;
    let first = a.num("first-history", 0);
    let announce = a.flag("announce");
    let mut ex = Explorer::new();
    {
        use lean_string::LeanString;
        use std::mem::{align_of, size_of};
        let w = size_of::<usize>();
        ex.cov.mon("layout", true);
        if size_of::<LeanString>() != 2 * w || size_of::<Option<LeanString>>() != 2 * w || align_of::<LeanString>() != w || align_of::<Option<LeanString>>() != w {
            emit_viol(
                "explore",
                &Viol { prop: 20, monitor: "layout", msg: format!("size_of LeanString {} / Option {} (expected {}), align {}", size_of::<LeanString>(), size_of::<Option<LeanString>>(), 2 * w, align_of::<LeanString>()) },
                seed, 0, profile.name(), "", &[],
            );
        }
    }
    ex.trace_digest = a.flag("digest");
    ex.decides = stat_props(a);
    ex.cmp_every = a.num("cmp-every", 7);
    let mut nviol = 0;
    let mut per_monitor: std::collections::BTreeMap<(usize, &'static str), u64> = Default::default();
    for h in first..first + histories {
        if announce {
            emit(&J::new().s("t", "hist").s("engine", "explore").n("seed", seed).n("hist", h).s("profile", profile.name()).render());
        }
        let (viols, ctx, _) = ex.run_history(seed, h, profile, steps, None);
        for v in &viols {
            let c = per_monitor.entry((v.prop, v.monitor)).or_insert(0);
            *c += 1;
            if *c <= 3 {
                emit_viol("explore", v, seed, h, profile.name(), &format!("--steps {steps}"), &ctx.oplog);
            }
            nviol += 1;
        }
        if nviol >= 400 {
            break;
        }
    }
    emit(
        &J::new()
            .s("t", "stat")
            .s("engine", "explore")
            .s("profile", profile.name())
            .n("seed", seed)
            .n("violations", nviol)
            .n("swallowed_hint_failures", ex.swallowed_ok)
            .raw("cov", cov_json(&ex.cov, &stat_props(a), a.flag("announce")))
            .raw("cross", cross_json(&ex))
            .render(),
    );
}

fn main() {
    let argv: Vec<String> = std::env::args().collect();
    if argv.len() < 2 {
        eprintln!("usage: harness <engine> [--key value ...]");
        std::process::exit(2);
    }
    let a = Args(argv[2..].to_vec());
    if !a.flag("show-panics") {
        std::panic::set_hook(Box::new(|_| {}));
    }
    ops::init_statics();
    match argv[1].as_str() {
        "noop" => {}
        "explore" => engine_explore(&a),
        "faults" => engines::engine_faults(&a),
        "sizes" => engines::engine_sizes(&a),
        "indices" => engines::engine_indices(&a),
        "panics" => engines::engine_panics(&a),
        "clones" => engines::engine_clones(&a),
        "construct" => engines::engine_construct(&a),
        "growth" => engines::engine_growth(&a),
        "shrink" => engines::engine_shrink(&a),
        "eqclass" => engines::engine_eqclass(&a),
        "huge" => engines::engine_huge(&a),
        "conc" => conc::engine_conc(&a),
        "big32" => big32::engine_big32(&a),
        "ints" => sweeps::engine_ints(&a),
        "tls" => sweeps::engine_tls(&a),
        "utf" => sweeps::engine_utf(&a),
        "serde" => sweeps::engine_serde(&a),
        x => {
            eprintln!("unknown engine {x}");
            std::process::exit(2);
        }
    }
}
