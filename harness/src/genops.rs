//! Closed-loop, boundary-biased operation generator with per-property workload profiles.

use crate::ops::*;
use crate::util::*;

#[derive(Clone, Copy, PartialEq, Eq, Debug)]
pub enum Profile {
    Default,
    Sharing,
    Static,
    Inline,
    ErrorPath,
    FillCap,
    Shrink,
}

impl Profile {
    pub fn parse(s: &str) -> Profile {
        match s {
            "default" => Profile::Default,
            "sharing" => Profile::Sharing,
            "static" => Profile::Static,
            "inline" => Profile::Inline,
            "errorpath" => Profile::ErrorPath,
            "fillcap" => Profile::FillCap,
            "shrink" => Profile::Shrink,
            _ => panic!("unknown profile {s}"),
        }
    }
    pub fn name(&self) -> &'static str {
        match self {
            Profile::Default => "default",
            Profile::Sharing => "sharing",
            Profile::Static => "static",
            Profile::Inline => "inline",
            Profile::ErrorPath => "errorpath",
            Profile::FillCap => "fillcap",
            Profile::Shrink => "shrink",
        }
    }
}

/// The C06 size table (without the "minus current length" variants, which are added per call).
pub fn size_table() -> Vec<usize> {
    let mut v: Vec<usize> = vec![0, 1, 15, 16, 17];
    for i in 0..usize::BITS {
        let p = 1usize << i;
        for d in [-2i64, -1, 0, 1, 2] {
            v.push(p.wrapping_add(d as usize));
        }
    }
    let m56 = MAX_CAP;
    for d in [-2i64, -1, 0, 1, 2] {
        v.push(m56.wrapping_add(d as usize));
        v.push((isize::MAX as usize).wrapping_add(d as usize));
    }
    v.push(usize::MAX - 2);
    v.push(usize::MAX - 1);
    v.push(usize::MAX);
    v.sort_unstable();
    v.dedup();
    v
}

pub fn gen_giant(r: &mut Rng, len: usize) -> usize {
    thread_local! { static T: Vec<usize> = size_table(); }
    let x = T.with(|t| *r.pick(t));
    if r.chance(1, 3) { x.wrapping_sub(len) } else { x }
}

fn text_short(r: &mut Rng) -> String {
    let l = short_len(r);
    gen_text(r, l)
}

fn text_below(r: &mut Rng, n: usize) -> String {
    let l = r.below(n);
    gen_text(r, l)
}

fn text_upto(r: &mut Rng, max: usize) -> String {
    let l = gen_len(r).min(max);
    gen_text(r, l)
}

fn gen_index(r: &mut Rng, m: &str, want_valid: bool, allow_end: bool) -> usize {
    if want_valid {
        let mut bs: Vec<usize> = m.char_indices().map(|(i, _)| i).collect();
        if allow_end {
            bs.push(m.len());
        }
        if bs.is_empty() {
            return 0;
        }
        match r.below(6) {
            0 => bs[0],
            1 => *bs.last().unwrap(),
            _ => *r.pick(&bs),
        }
    } else {
        r.below(m.len() + 3)
    }
}

fn gen_items(r: &mut Rng, max_items: usize, inline_room: Option<usize>) -> Vec<String> {
    // occasionally many items (iterator-driven ops that batch, chunk or pre-size)
    let big_ok = MAX_TEXT_LEN.load(std::sync::atomic::Ordering::Relaxed) >= 1000;
    let n = if big_ok && inline_room.is_none() && r.chance(1, 25) { r.range(30, 150) } else { r.below(max_items + 1) };
    let mut room = inline_room.unwrap_or(usize::MAX);
    let mut v = Vec::new();
    for _ in 0..n {
        let l = short_len(r).min(room);
        let s = gen_text(r, l);
        room -= s.len();
        v.push(s);
    }
    v
}

fn gen_utf8_bytes(r: &mut Rng) -> Vec<u8> {
    let mut b = text_upto(r, 80).into_bytes();
    let muts = r.below(4);
    for _ in 0..muts {
        if b.is_empty() {
            b.push(0xFF);
            continue;
        }
        let i = r.below(b.len());
        match r.below(5) {
            0 => b[i] = *r.pick(&[0x80u8, 0xBF, 0xC0, 0xC2, 0xE0, 0xED, 0xF0, 0xF4, 0xF5, 0xFF]),
            1 => {
                b.truncate(i);
            }
            2 => b.insert(i, *r.pick(&[0xE2u8, 0xF0, 0x9F, 0xC3])),
            3 => b[i] ^= 0x40,
            _ => {
                b.remove(i);
            }
        }
    }
    b
}

fn gen_utf16(r: &mut Rng) -> Vec<u16> {
    let n = short_len(r);
    (0..n)
        .map(|_| match r.below(8) {
            0 => 0xD800 + r.below(0x400) as u16,
            1 => 0xDC00 + r.below(0x400) as u16,
            2 => 0xFFFD,
            3 => 0x20AC,
            _ => 0x41 + r.below(26) as u16,
        })
        .collect()
}

fn gen_tls(r: &mut Rng) -> Tls {
    match r.below(10) {
        0..=4 => {
            let ty = *r.pick(&INT_TYS);
            let v: i128 = match r.below(5) {
                0 => r.next() as i128 % 1000,
                1 => (10i128).pow(r.below(39) as u32) + (r.below(5) as i128 - 2),
                2 => -((10i128).pow(r.below(38) as u32)) + (r.below(5) as i128 - 2),
                3 => (r.next() as i128) << (r.below(64) as u32),
                _ => ((r.next() as u128) << 64 | r.next() as u128) as i128,
            };
            Tls::Int(v, ty)
        }
        5 => Tls::F64(match r.below(4) {
            0 => (r.below(2000) as f64 / 8.0).to_bits(),
            1 => f64::NAN.to_bits(),
            _ => r.next(),
        }),
        6 => Tls::F32(r.next() as u32),
        7 => {
            if r.chance(1, 2) {
                Tls::Bool(r.chance(1, 2))
            } else {
                Tls::Char(gen_char(r))
            }
        }
        8 => Tls::Str(text_upto(r, 64)),
        _ => Tls::Disp(gen_items(r, 5, None)),
    }
}

/// Generates a constructor for slot `t`.
fn gen_constructor(r: &mut Rng, t: usize, prof: Profile) -> Op {
    let len = match prof {
        Profile::Inline => r.below(17),
        Profile::Sharing | Profile::Shrink => {
            if r.chance(4, 5) {
                r.range(17, 70)
            } else {
                gen_len(r)
            }
        }
        _ => gen_len(r),
    };
    if prof == Profile::Static && r.chance(3, 4) {
        return Op::FromStatic { t, id: r.below(BASE_STATICS) };
    }
    if prof == Profile::Inline {
        let s = gen_text(r, len);
        return match r.below(12) {
            0 => Op::New { t },
            1 => Op::FromStr { t, s },
            2 => Op::FromString { t, s },
            3 => Op::FromBox { t, s },
            4 => Op::FromCowB { t, s },
            5 => Op::FromCowO { t, s },
            6 => Op::FromChar { t, c: gen_char(r) },
            7 => Op::Parse { t, s },
            8 => Op::FromUtf8 { t, s },
            9 => Op::FromStringRef { t, s },
            10 => Op::WithCap { t, n: r.below(17), try_: r.chance(1, 2) },
            _ => Op::FromStatic { t, id: r.below(2) },
        };
    }
    if matches!(prof, Profile::FillCap | Profile::Shrink) && r.chance(1, 2) {
        let n = match r.below(6) {
            0 => r.range(0, 16),
            1 => 17,
            2 => r.range(17, 40),
            3 => r.range(40, 200),
            4 => r.range(100, 1200),
            _ => gen_len(r),
        };
        return Op::WithCap { t, n, try_: r.chance(1, 2) };
    }
    let s = gen_text(r, len);
    match r.below(28) {
        0 => Op::New { t },
        1..=4 => Op::FromStr { t, s },
        5 => Op::FromString { t, s },
        6 => Op::FromStringRef { t, s },
        7 => Op::FromBox { t, s },
        8 => Op::FromCowB { t, s },
        9 => Op::FromCowO { t, s },
        10 => Op::FromChar { t, c: gen_char(r) },
        11 => Op::Parse { t, s },
        12..=13 => Op::FromStatic { t, id: r.below(BASE_STATICS) },
        14..=15 => Op::WithCap { t, n: gen_len(r), try_: r.chance(1, 2) },
        16 => Op::FromUtf8 { t, s },
        17 => Op::FromUtf8Unchecked { t, s },
        18 => Op::Utf8Lossy { t, b: gen_utf8_bytes(r) },
        19 => Op::Utf16 { t, u: gen_utf16(r) },
        20 => Op::Utf16Lossy { t, u: gen_utf16(r) },
        21..=23 => {
            let kind = *r.pick(&ITEM_KINDS);
            let items = gen_items(r, 6, None);
            let hint = if r.chance(1, 4) { Some(r.below(60)) } else { None };
            Op::Collect { t, kind, items, hint }
        }
        _ => Op::ToLean { t, v: gen_tls(r), try_: r.chance(1, 2) },
    }
}

/// A text of the same length as `m` that differs from it in ONE character of the same UTF-8 width, placed
/// late in the text (never in the first machine word when the text is longer than that): handles whose first
/// word, length and last byte agree but whose texts differ.
fn near_duplicate(r: &mut Rng, m: &str) -> Option<String> {
    let idx: Vec<(usize, char)> = m.char_indices().collect();
    if idx.is_empty() {
        return None;
    }
    let late: Vec<&(usize, char)> = idx.iter().filter(|(i, _)| *i >= 8 && *i + 1 < m.len()).collect();
    let &(i, c) = if !late.is_empty() && r.chance(3, 4) { *r.pick(&late) } else { r.pick(&idx) };
    let repl = match c.len_utf8() {
        1 => if c == 'q' { 'Q' } else { 'q' },
        2 => if c == 'é' { 'ü' } else { 'é' },
        3 => if c == '世' { '界' } else { '世' },
        _ => if c == '𐀀' { '😀' } else { '𐀀' },
    };
    let mut s = String::with_capacity(m.len());
    s.push_str(&m[..i]);
    s.push(repl);
    s.push_str(&m[i + c.len_utf8()..]);
    Some(s)
}

pub struct Gen {
    pub prof: Profile,
    /// probability (per 1000 steps) of injecting an allocation fault into the step
    pub fault_permille: usize,
}

pub struct Step {
    pub op: Op,
    /// fail the j-th allocation/reallocation request issued during this step
    pub fault: Option<u64>,
}

impl Gen {
    pub fn new(prof: Profile) -> Gen {
        let fault_permille = match prof {
            Profile::ErrorPath => 120,
            _ => 0,
        };
        Gen { prof, fault_permille }
    }

    pub fn next(&self, r: &mut Rng, pool: &Pool) -> Step {
        let op = self.next_op(r, pool);
        let fault = if self.fault_permille > 0 && r.below(1000) < self.fault_permille {
            Some(if r.chance(3, 4) { 1 } else { r.range(1, 3) as u64 })
        } else {
            None
        };
        Step { op, fault }
    }

    fn next_op(&self, r: &mut Rng, pool: &Pool) -> Op {
        let prof = self.prof;
        let occ = pool.occupied();
        let free: Vec<usize> = (0..NSLOTS).filter(|i| pool.model[*i].is_none()).collect();
        let want = match prof {
            Profile::Sharing => 5,
            Profile::Static => 5,
            _ => 4,
        };
        if occ.is_empty() || (occ.len() < want && !free.is_empty() && r.chance(1, 3)) {
            let t = *r.pick(&free);
            // in sharing-oriented profiles, prefer cloning an existing handle into the free slot
            if !occ.is_empty() && matches!(prof, Profile::Sharing | Profile::Static | Profile::Shrink) && r.chance(2, 3)
            {
                let src = *r.pick(&occ);
                return self.clone_op(r, t, src);
            }
            if !occ.is_empty() && r.chance(1, 6) {
                let src = *r.pick(&occ);
                if let Some(s) = near_duplicate(r, pool.model[src].as_ref().unwrap()) {
                    return Op::FromStr { t, s };
                }
            }
            return gen_constructor(r, t, prof);
        }
        let t = *r.pick(&occ);
        let m = pool.model[t].as_ref().unwrap();
        let ls = pool.slots[t].as_ref();
        let len = m.len();
        let cap = ls.map(|l| l.capacity()).unwrap_or(16);
        let try_ = r.chance(1, 3);

        // --- profile-specific branches ------------------------------------------------------
        match prof {
            Profile::Inline => return self.inline_op(r, t, m),
            Profile::ErrorPath => {
                if let Some(op) = self.error_op(r, pool, t) {
                    return op;
                }
            }
            Profile::FillCap => {
                if r.chance(1, 2) {
                    // append up to exactly capacity, or one more
                    let room = cap.saturating_sub(len);
                    let n = match r.below(6) {
                        0 => room,
                        1 => room + 1,
                        2 => room.saturating_sub(1),
                        _ => r.below(room + 2),
                    }
                    .min(300);
                    let s = gen_text(r, n);
                    return match r.below(5) {
                        0 => Op::AddAssign { t, s },
                        1 => Op::InsertStr { t, i: gen_index(r, m, true, true), s, try_ },
                        2 if !s.is_empty() => {
                            let c = s.chars().next().unwrap();
                            Op::Push { t, c, try_ }
                        }
                        3 => Op::Write { t, pieces: vec![s] },
                        _ => Op::PushStr { t, s, try_ },
                    };
                }
                if r.chance(1, 4) {
                    let n = match r.below(5) {
                        0 => 0,
                        1 => cap.saturating_sub(len),
                        2 => cap.saturating_sub(len) + 1,
                        3 => len / 2 + r.below(3),
                        _ => gen_len(r).min(400),
                    };
                    return Op::Reserve { t, n, try_ };
                }
            }
            Profile::Static => {
                // "landing" steps: cut a text to exactly the inline limit (of either pointer width) or next
                // to it, and once a text sits there, run the operations that ask for NO extra room - the
                // zero-growth conversions of a borrowed text (reserve(0), empty pieces, iterators whose
                // size hint is 0) are a path of their own in the crate.
                let ic = crate::ops::INLINE_CAP;
                let landing = [ic, ic - 1, ic + 1, 8, 16, 0];
                if len > 0 && (len.abs_diff(ic) <= 1 || len.abs_diff(16) <= 1) && r.chance(1, 2) {
                    let i = gen_index(r, m, true, true);
                    return match r.below(9) {
                        0..=1 => Op::Reserve { t, n: 0, try_ },
                        2 => Op::InsertStr { t, i, s: String::new(), try_ },
                        3 => Op::PushStr { t, s: String::new(), try_ },
                        4 => Op::Extend { t, kind: *r.pick(&ITEM_KINDS), items: gen_items(r, 2, None), hint: Some(0) },
                        5 => Op::Extend { t, kind: *r.pick(&ITEM_KINDS), items: Vec::new(), hint: None },
                        6 => Op::AddAssign { t, s: String::new() },
                        7 => Op::Write { t, pieces: vec![String::new()] },
                        _ => Op::ShrinkTo { t, n: 0, try_ },
                    };
                }
                if len > ic && r.chance(1, 6) {
                    let n = m.floor_char_boundary((*r.pick(&landing)).min(len));
                    return if r.chance(1, 4) && len - n <= 4 { Op::Pop { t, try_ } } else { Op::Truncate { t, n, try_ } };
                }
            }
            Profile::Shrink => {
                if r.chance(2, 5) {
                    let n = match r.below(9) {
                        0 => 0,
                        1 => len.saturating_sub(1),
                        2 => len,
                        3 => len + 1,
                        4 => cap.saturating_sub(1),
                        5 => cap,
                        6 => cap + 1,
                        7 => r.below(cap + 2),
                        _ => gen_giant(r, len),
                    };
                    return if r.chance(1, 4) { Op::ShrinkFit { t, try_ } } else { Op::ShrinkTo { t, n, try_ } };
                }
            }
            _ => {}
        }

        // --- sharing actions ----------------------------------------------------------------
        let share_w = match prof {
            Profile::Sharing => 30,
            Profile::Static | Profile::Shrink => 22,
            _ => 12,
        };
        if r.below(100) < share_w {
            return match r.below(10) {
                0..=3 => {
                    if let Some(&d) = free.first() {
                        self.clone_op(r, d, t)
                    } else {
                        Op::Drop { t }
                    }
                }
                4..=5 => {
                    // clone_from onto another occupied/free slot
                    let cands: Vec<usize> = (0..NSLOTS).filter(|&i| i != t).collect();
                    // prefer a destination that holds a different text of the same length (near-duplicates
                    // are where a "nothing to do" shortcut in clone_from would go wrong)
                    let twins: Vec<usize> = cands
                        .iter()
                        .copied()
                        .filter(|&i| pool.model[i].as_ref().is_some_and(|o| o.len() == len && o != m))
                        .collect();
                    let d = if !twins.is_empty() && r.chance(2, 3) { *r.pick(&twins) } else { *r.pick(&cands) };
                    Op::CloneFrom { t: d, src: t }
                }
                6..=8 => Op::Drop { t },
                _ => {
                    // reassignment of an occupied slot with a fresh value
                    gen_constructor(r, t, prof)
                }
            };
        }

        // --- generic mutators ---------------------------------------------------------------
        let valid_idx = !r.chance(1, 8);
        match r.below(40) {
            0..=4 => Op::Push { t, c: gen_char(r), try_ },
            5..=8 => Op::PushStr { t, s: text_short(r), try_ },
            9..=11 => Op::Pop { t, try_ },
            12..=14 => Op::Remove { t, i: gen_index(r, m, valid_idx, false), try_ },
            15..=16 => Op::Insert { t, i: gen_index(r, m, valid_idx, true), c: gen_char(r), try_ },
            17..=18 => Op::InsertStr { t, i: gen_index(r, m, valid_idx, true), s: text_short(r), try_ },
            19..=21 => {
                let n = if r.chance(1, 6) { len + r.below(3) } else { gen_index(r, m, valid_idx, true) };
                Op::Truncate { t, n, try_ }
            }
            22 => Op::Clear { t },
            23..=24 => Op::Retain { t, salt: r.next(), try_ },
            25..=26 => {
                let n = match r.below(8) {
                    0 => 0,
                    1 => 1,
                    2 => cap.saturating_sub(len),
                    3 => cap.saturating_sub(len) + 1,
                    4 => (16usize).saturating_sub(len),
                    5 => len / 2 + 1,
                    _ => gen_len(r).min(2000),
                };
                Op::Reserve { t, n, try_ }
            }
            27 => {
                let n = match r.below(6) {
                    0 => 0,
                    1 => len,
                    2 => len + 1,
                    3 => cap.saturating_sub(1),
                    4 => 17,
                    _ => r.below(cap + 3),
                };
                Op::ShrinkTo { t, n, try_ }
            }
            28 => Op::ShrinkFit { t, try_ },
            29..=31 => {
                let kind = *r.pick(&ITEM_KINDS);
                let items = gen_items(r, 5, None);
                let hint = if r.chance(1, 5) { Some(r.below(80)) } else { None };
                Op::Extend { t, kind, items, hint }
            }
            32 => Op::AddAssign { t, s: text_short(r) },
            33 => Op::Add { t, s: text_short(r) },
            34..=35 => Op::Write { t, pieces: gen_items(r, 4, None) },
            36 => Op::OptionRoundTrip { t },
            37 => {
                if let Some(&d) = free.first() {
                    Op::ToLeanLean { t: d, src: t, try_ }
                } else {
                    Op::Pop { t, try_ }
                }
            }
            _ => {
                if len > 24 && r.chance(1, 2) {
                    // cut long strings down so that lengths keep visiting the interesting region
                    Op::Truncate { t, n: gen_index(r, &m[..m.floor_char_boundary(24)], true, true), try_ }
                } else {
                    Op::Push { t, c: gen_char(r), try_ }
                }
            }
        }
    }

    fn clone_op(&self, r: &mut Rng, d: usize, src: usize) -> Op {
        match r.below(8) {
            0..=4 => Op::Clone { t: d, src },
            5 => Op::FromRef { t: d, src },
            6 => Op::ToLeanLean { t: d, src, try_: r.chance(1, 2) },
            _ => Op::CloneFrom { t: d, src },
        }
    }

    fn inline_op(&self, r: &mut Rng, t: usize, m: &str) -> Op {
        let len = m.len();
        let room = 16usize.saturating_sub(len);
        let try_ = r.chance(1, 3);
        match r.below(14) {
            0..=2 => {
                let c = gen_char(r);
                if c.len_utf8() <= room { Op::Push { t, c, try_ } } else { Op::Pop { t, try_ } }
            }
            3..=4 => Op::PushStr { t, s: text_below(r, room + 1), try_ },
            5 => Op::Pop { t, try_ },
            6 => {
                if len == 0 {
                    Op::Clear { t }
                } else {
                    Op::Remove { t, i: gen_index(r, m, true, false), try_ }
                }
            }
            7 => {
                let c = gen_char(r);
                if c.len_utf8() <= room {
                    Op::Insert { t, i: gen_index(r, m, true, true), c, try_ }
                } else {
                    Op::Truncate { t, n: gen_index(r, m, true, true), try_ }
                }
            }
            8 => Op::InsertStr { t, i: gen_index(r, m, true, true), s: text_below(r, room + 1), try_ },
            9 => Op::Truncate { t, n: gen_index(r, m, true, true), try_ },
            10 => Op::Retain { t, salt: r.next(), try_ },
            11 => Op::Clear { t },
            12 => gen_constructor(r, t, Profile::Inline),
            _ => Op::Drop { t },
        }
    }

    fn error_op(&self, r: &mut Rng, pool: &Pool, t: usize) -> Option<Op> {
        let m = pool.model[t].as_ref().unwrap();
        let len = m.len();
        let try_ = r.chance(1, 2);
        let free: Vec<usize> = (0..NSLOTS).filter(|i| pool.model[*i].is_none()).collect();
        Some(match r.below(40) {
            0..=2 => Op::Reserve { t, n: gen_giant(r, len), try_ },
            3 => Op::ShrinkTo { t, n: gen_giant(r, len), try_ },
            4 => {
                let d = free.first().copied().unwrap_or(t);
                Op::WithCap { t: d, n: gen_giant(r, 0), try_ }
            }
            5..=6 => {
                let kind = if r.chance(1, 2) { ItemKind::Char } else { *r.pick(&ITEM_KINDS) };
                Op::Extend { t, kind, items: gen_items(r, 5, None), hint: Some(gen_giant(r, len)) }
            }
            7 => {
                let d = free.first().copied().unwrap_or(t);
                let kind = if r.chance(1, 2) { ItemKind::Char } else { *r.pick(&ITEM_KINDS) };
                Op::Collect { t: d, kind, items: gen_items(r, 5, None), hint: Some(gen_giant(r, 0)) }
            }
            8..=9 => Op::RetainPanic { t, salt: r.next(), k: r.range(1, m.chars().count() + 1) },
            10..=11 => {
                let kind = *r.pick(&ITEM_KINDS);
                let items = gen_items(r, 5, None);
                let n = match kind {
                    ItemKind::Char | ItemKind::CharRef => items.iter().map(|s| s.chars().count()).sum::<usize>(),
                    _ => items.len(),
                };
                Op::ExtendPanic { t, kind, items, k: r.range(1, n + 1) }
            }
            12 => {
                let d = free.first().copied().unwrap_or(t);
                let kind = *r.pick(&ITEM_KINDS);
                let items = gen_items(r, 6, None);
                let n = match kind {
                    ItemKind::Char | ItemKind::CharRef => items.iter().map(|s| s.chars().count()).sum::<usize>(),
                    _ => items.len(),
                };
                Op::CollectPanic { t: d, kind, items, k: r.range(1, n + 1) }
            }
            13 => {
                let d = free.first().copied().unwrap_or(t);
                let pieces = gen_items(r, 5, None);
                let k = r.range(1, pieces.len() + 1);
                Op::ToLeanPanic { t: d, pieces, k }
            }
            14..=15 => Op::Remove { t, i: r.below(len + 3), try_ },
            16 => Op::Insert { t, i: r.below(len + 3), c: gen_char(r), try_ },
            17 => Op::InsertStr { t, i: r.below(len + 3), s: text_short(r), try_ },
            18 => Op::Truncate { t, n: r.below(len + 3), try_ },
            _ => return None,
        })
    }
}
