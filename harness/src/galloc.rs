//! Counting global allocator of the harness binary.
//!
//! The crate's own allocator calls go through the `verif-hooks` indirection and are counted by
//! the shim.  An allocation the crate causes *indirectly* (a temporary `String`, a `Vec`, a boxed
//! closure inside a conversion) goes to the global allocator instead and would be invisible to the
//! "performs no heap allocation" clauses of C08-C11.  This allocator counts, per thread, every
//! alloc/realloc that does not come from inside the shim; the step monitors read the counter
//! tightly around the crate call (inputs are prepared before, results are examined after).

use std::alloc::{GlobalAlloc, Layout, System};
use std::cell::Cell;

thread_local! {
    static FOREIGN: Cell<u64> = const { Cell::new(0) };
    static IN_SHIM: Cell<u32> = const { Cell::new(0) };
}

pub struct Counting;

#[inline]
fn note() {
    // const-initialised, destructor-free thread locals: no allocation, usable at any time
    let _ = IN_SHIM.try_with(|s| {
        if s.get() == 0 {
            let _ = FOREIGN.try_with(|c| c.set(c.get().wrapping_add(1)));
        }
    });
}

unsafe impl GlobalAlloc for Counting {
    unsafe fn alloc(&self, l: Layout) -> *mut u8 {
        note();
        unsafe { System.alloc(l) }
    }
    unsafe fn alloc_zeroed(&self, l: Layout) -> *mut u8 {
        note();
        unsafe { System.alloc_zeroed(l) }
    }
    unsafe fn realloc(&self, p: *mut u8, l: Layout, n: usize) -> *mut u8 {
        note();
        unsafe { System.realloc(p, l, n) }
    }
    unsafe fn dealloc(&self, p: *mut u8, l: Layout) {
        unsafe { System.dealloc(p, l) }
    }
}

/// allocations + reallocations made on this thread outside the shim so far
pub fn foreign() -> u64 {
    FOREIGN.try_with(|c| c.get()).unwrap_or(0)
}

/// Marks the dynamic extent of a shim handler: what the shim itself allocates (its tables, and the
/// block it hands to the crate) is accounted for by the shim's own counters.
pub struct ShimGuard;
impl ShimGuard {
    pub fn enter() -> ShimGuard {
        let _ = IN_SHIM.try_with(|s| s.set(s.get() + 1));
        ShimGuard
    }
}
impl Drop for ShimGuard {
    fn drop(&mut self) {
        let _ = IN_SHIM.try_with(|s| s.set(s.get().saturating_sub(1)));
    }
}
