//! Compile-time probe of the C04 check: "LeanStrings ... may be moved to different threads, and a
//! LeanString may be shared by reference between threads".  If this crate stops compiling while
//! lean_string itself compiles, the Send / Sync guarantee is gone.
#![no_std]
use lean_string::LeanString;

fn assert_send<T: Send>() {}
fn assert_sync<T: Sync>() {}
fn assert_static<T: 'static>() {}

pub fn probe() {
    assert_send::<LeanString>();
    assert_sync::<LeanString>();
    assert_send::<&LeanString>();
    assert_send::<Option<LeanString>>();
    assert_static::<LeanString>();
}
