#!/usr/bin/env python3
"""Line coverage of /repo/src under the quick workloads (native jobs only), to see which crate
paths no check drives.  Not a registered check: a tool for extending the workloads.

  driver/coverage.py [Cxx ...]      -> target/cov/report.txt (+ uncovered line list on stdout)
"""
import glob, os, subprocess, sys, shutil
sys.path.insert(0, os.path.dirname(os.path.abspath(__file__)))
import plans
from common import *  # noqa

BIN = os.path.expanduser("~/.rustup/toolchains/nightly-x86_64-unknown-linux-gnu/lib/rustlib/x86_64-unknown-linux-gnu/bin")
COV = os.path.join(TARGET, "cov")


def main():
    props = [a for a in sys.argv[1:] if a.startswith("C")] or ["C%02d" % i for i in range(1, 21)]
    env = cargo_env({"CARGO_TARGET_DIR": COV, "RUSTFLAGS": "-Cinstrument-coverage", "LLVM_PROFILE_FILE": os.path.join(COV, "build-%p.profraw")})
    p = subprocess.run(["cargo", "+nightly", "build", "--release", "--features", "extra"], cwd=HARNESS, env=env)
    if p.returncode:
        return 2
    binp = os.path.join(COV, "release/harness")
    raw = os.path.join(COV, "raw")
    shutil.rmtree(raw, ignore_errors=True)
    os.makedirs(raw)
    tasks = []
    for prop in props:
        plan = plans.plan_for(prop, "quick", 1)
        for ji, job in enumerate(plan["jobs"]):
            if is_miri(job["flavour"]) or job["flavour"] in ("memcheck",):
                continue
            for sh in range(min(job.get("shards", 1), 4)):
                seed = (job["seed"] * 1000003 + ji * 7919 + sh * 104729 + 1) % (1 << 53)
                argv = [binp, job["engine"]] + [str(a) for a in job["args"]] + ["--seed", str(seed)]
                tasks.append((prop, ji, sh, argv))

    def run(t):
        prop, ji, sh, argv = t
        e = dict(env)
        e["LLVM_PROFILE_FILE"] = os.path.join(raw, "%s-%d-%d-%%p.profraw" % (prop, ji, sh))
        try:
            subprocess.run(argv, cwd=HARNESS, env=e, capture_output=True, timeout=900)
        except subprocess.TimeoutExpired:
            pass

    with ThreadPoolExecutor(max_workers=NCPU) as ex:
        list(ex.map(run, tasks))
    prof = os.path.join(COV, "all.profdata")
    subprocess.check_call([os.path.join(BIN, "llvm-profdata"), "merge", "-sparse", "-o", prof] + glob.glob(raw + "/*.profraw"))
    srcs = sorted(glob.glob(os.path.join(REPO, "src/**/*.rs"), recursive=True))
    rep = subprocess.run([os.path.join(BIN, "llvm-cov"), "report", binp, "-instr-profile=" + prof] + srcs, capture_output=True, text=True)
    print(rep.stdout)
    show = subprocess.run([os.path.join(BIN, "llvm-cov"), "show", binp, "-instr-profile=" + prof, "-show-line-counts-or-regions",
                           "-Xdemangler=rustfilt"] + srcs, capture_output=True, text=True)
    if show.returncode:
        show = subprocess.run([os.path.join(BIN, "llvm-cov"), "show", binp, "-instr-profile=" + prof] + srcs, capture_output=True, text=True)
    open(os.path.join(COV, "show.txt"), "w").write(show.stdout)
    # uncovered executable lines
    cur = None
    for line in show.stdout.splitlines():
        if line.startswith("/") and line.endswith(":"):
            cur = line[:-1]
            continue
        parts = line.split("|", 2)
        if len(parts) == 3 and parts[1].strip() == "0":
            print("%s:%s: %s" % (os.path.relpath(cur or "?", REPO), parts[0].strip(), parts[2].rstrip()[:140]))
    shutil.rmtree(raw, ignore_errors=True)
    return 0


if __name__ == "__main__":
    sys.exit(main())
