#!/bin/bash
# usage: confirm_seed.sh <name> <dir with patch.diff demo_seeded.rs meta.json> [extra cargo test args for the demo]
# Confirms in a fresh scratch worktree: patch applies, existing tests pass with it, demo fails with it and passes without.
name="$1"; src="$2"; shift 2
demo_args="$@"
wt=/tmp/confirm_$name
export CARGO_TARGET_DIR=/tmp/confirm_target CARGO_NET_OFFLINE=true
git -C /repo worktree remove --force $wt 2>/dev/null
git -C /repo worktree add -q --detach $wt HEAD || exit 3
cd $wt
cp "$src/demo_seeded.rs" tests/demo_seeded.rs
echo "--- demo on unmodified source"
cargo test --offline $demo_args --test demo_seeded > /tmp/confirm_$name.clean.log 2>&1; clean=$?
git apply "$src/patch.diff" || { echo "PATCH DOES NOT APPLY"; exit 3; }
echo "--- existing suite with patch"
mv tests/demo_seeded.rs /tmp/confirm_$name.demo.rs
cargo test --offline > /tmp/confirm_$name.suite.log 2>&1; suite=$?
cargo build --offline --no-default-features > /dev/null 2>&1; nostd=$?
mv /tmp/confirm_$name.demo.rs tests/demo_seeded.rs
echo "--- demo with patch"
cargo test --offline $demo_args --test demo_seeded > /tmp/confirm_$name.patched.log 2>&1; patched=$?
echo "RESULT name=$name demo_clean_exit=$clean suite_with_patch_exit=$suite nostd_build_exit=$nostd demo_patched_exit=$patched"
grep -E "^test result" /tmp/confirm_$name.suite.log | awk '{p+=$4; f+=$6} END {print "suite passed="p" failed="f}'
cd /; git -C /repo worktree remove --force $wt
