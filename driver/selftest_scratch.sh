#!/bin/bash
# Runs `./check selftest "$@"` against a SCRATCH copy of /repo and of the harness, so that /repo itself is
# never touched (the registered checks keep using /repo). The scratch lives outside /repo and /verif and is
# removed with `selftest_scratch.sh --clean`.
S=${VERIF_SCRATCH:-/var/tmp/verif-scratch}
if [ "$1" = "--clean" ]; then rm -rf "$S"; exit 0; fi
mkdir -p "$S"
if [ ! -d "$S/repo/.git" ]; then git clone -q /repo "$S/repo" || exit 3; fi
git -C "$S/repo" fetch -q origin && git -C "$S/repo" checkout -q --detach origin/HEAD 2>/dev/null || git -C "$S/repo" pull -q
git -C "$S/repo" checkout -q -- . ; git -C "$S/repo" reset -q --hard "$(git -C /repo rev-parse HEAD)"
mkdir -p "$S/verif"
rsync -a --delete --exclude target --exclude evidence --exclude replays --exclude .git /verif/ "$S/verif/"
sed -i "s|path = \"/repo\"|path = \"$S/repo\"|" "$S/verif/harness/Cargo.toml" "$S/verif/harness/probe/Cargo.toml"
cp /repo/Cargo.lock "$S/verif/harness/Cargo.lock" 2>/dev/null
cd "$S/verif" && VERIF_REPO="$S/repo" ./check selftest "$@"
cp "$S/verif/selftest_results.json" "/verif/selftest_results${VERIF_SEED:+.seed$VERIF_SEED}.json"
