"""Per-property plans (which engines, flavours, budgets) and aggregation of harness output."""
import json, os, re
from common import *  # noqa

MIRI_MAXLEN = ["--max-len", "70", "--refuse-over", str(1 << 20), "--shim", "track", "--announce", "--cmp-every", "0"]
ASAN_ARGS = ["--shim", "track", "--announce", "--refuse-over", str(1 << 26)]
MEMCHECK_ARGS = ["--shim", "track", "--announce", "--refuse-over", str(1 << 24)]

ASSUME_COMMON = [
    "std::string::String (and str/core::fmt) is the specification of text semantics",
    "histories, inputs and schedules are sampled by a seeded generator unless 'exhaustive' says otherwise; nothing outside the executed runs is claimed",
    "the verif-hooks feature only redirects the crate's three allocator calls and exposes a Relaxed load of the reference count; with no shim installed it is a pass-through",
]


def ex(flavour, profile, histories, steps, shards, seed, extra=None, **kw):
    args = ["--profile", profile, "--histories", histories, "--steps", steps]
    if is_miri(flavour):
        args += MIRI_MAXLEN
    elif flavour == "asan":
        args += ASAN_ARGS
    elif flavour == "memcheck":
        args += MEMCHECK_ARGS
    else:
        args += ["--shim", "shadow"]
    if extra:
        args += extra
    j = {"flavour": flavour, "engine": "explore", "args": args, "shards": shards, "seed": seed}
    j.update(kw)
    return j


def eng(flavour, engine, args, shards, seed, **kw):
    a = list(args)
    if is_miri(flavour):
        a = ["--shim", "track", "--refuse-over", str(1 << 20), "--announce", "--miri", "1", "--max-len", "70"] + a
    elif flavour == "asan":
        a += ["--shim", "track", "--announce", "--refuse-over", str(1 << 26)]
    elif flavour == "memcheck":
        a += ["--shim", "track", "--announce", "--refuse-over", str(1 << 24)]
    j = {"flavour": flavour, "engine": engine, "args": a, "shards": shards, "seed": seed}
    j.update(kw)
    return j


def explore_mix(profiles, tier, seed, native=True, dbg=True, miri=True, asan=False, memcheck=False,
                q_hist=1500, t_hist=60000, steps=120, q_miri_steps=110, t_miri_steps=700):
    """Standard flavour mix for explorer-based properties."""
    quick = tier == "quick"
    jobs = []
    per = max(1, 16 // len(profiles))
    for pi, prof in enumerate(profiles):
        if native:
            jobs.append(ex("native-rel", prof, q_hist if quick else t_hist, steps, per, seed, weight=2))
        if dbg:
            jobs.append(ex("native-dbg", prof, max(50, (q_hist if quick else t_hist) // 12), steps, per, seed, weight=2))
        if miri:
            n = q_miri_steps if quick else t_miri_steps
            jobs.append(ex("miri", prof, max(1, n // 55), 55, per, seed, weight=10, timeout=1500 if quick else 7200))
        if asan:
            jobs.append(ex("asan", prof, (q_hist if quick else t_hist) // 6, steps, max(1, per // 2), seed, weight=3))
        if memcheck and not quick:
            jobs.append(ex("memcheck", prof, 400, steps, max(1, per // 2), seed, weight=5, timeout=3000))
    if miri and not quick:
        # second aliasing model + 32-bit and big-endian targets
        for prof in profiles[:2]:
            jobs.append(ex("miri", prof, 4, 55, 4, seed + 17, weight=10, timeout=7200, miriflags="-Zmiri-tree-borrows", label="miri-tree-borrows"))
        jobs.append(ex("miri-i686", profiles[0], 4, 55, 4, seed + 23, weight=10, timeout=7200, label="miri-i686"))
        jobs.append(ex("miri-be", profiles[0], 4, 55, 4, seed + 29, weight=10, timeout=7200, label="miri-powerpc64-be"))
    return jobs


RULES = {
    1: "closed-loop generated histories over a pool of <=8 handles, every op of the vocabulary with boundary-biased arguments; after EVERY step every live handle is compared byte-for-byte with its String model and every returned value with String's. distinct_nontrivial = distinct (op, storage kind before, sharing class, length class, outcome, storage kind after) signatures of steps that changed the target's text, presence or storage kind",
    2: "sharing-heavy histories; before each step every non-target handle is snapshotted (len, as_ptr, capacity, storage kind, raw 2 words) and compared after the step, and its text is compared with its untouched String model. A step counts (non-trivial) only if the target shared a heap buffer or static text with >=1 other live handle when the step ran; distinct = (op, sharing class, outcome, storage kind) signatures of such steps",
    3: "every alloc/realloc/dealloc of the crate goes through the shim (SHADOW natively: guard zones, 0xCD fill, moving realloc, 0xDD poison + quarantine; TRACK under Miri/ASan/memcheck: live-table + layout check while the sanitizer sees the real events). After every step: refcount == number of live handles per buffer, live blocks == distinct buffers referenced, block size == 16 + capacity; at the end of every history all handles are dropped and the heap must be empty. distinct = step signatures as in C01 (all steps count)",
    7: "String's own panic is the oracle (catch_unwind on both); after a rejected call the target's len/ptr/capacity/storage/raw words, all other handles, the set of live blocks and all reference counts must be unchanged. distinct = (op, storage kind, sharing class, length class) of calls String rejects",
    8: "every clone/clone_from/From<&LeanString>/to_lean_string(LeanString) step: allocator request delta must be zero (one dealloc allowed when the destination held the last reference of another buffer), copy.as_ptr()==src.as_ptr() for heap/static, raw words equal for inline, refcount +1, copy == src. distinct = (route, source storage kind, source sharing class, length class, dst-was-last-owner)",
    9: "constructors are built into a temporary and the shim's request counter is read before assignment: <=16 bytes => 0 requests, inline storage; >=17 bytes through a text route => exactly 1 alloc, 0 realloc/dealloc, capacity == len; edits of inline strings whose result is <=16 bytes => 0 requests, still inline. distinct = (route, length, final byte for 16-byte texts) / (edit op, len before, len after)",
    10: "'static texts are harness-leaked writable buffers compared with pristine copies after every step; from_static_str / clone / pop / truncate / clear on static-stored handles must issue 0 requests and keep as_ptr; first write must leave static storage. distinct = (op, static length class, resulting storage)",
    11: "capacity()>=len() for every handle after every step; with_capacity(n)/reserve(n) postconditions incl. exclusive ownership; append/insert whose result fits the capacity reported just before the call on an exclusively owned (inline or refcount-1 heap) string => 0 allocator requests and unchanged as_ptr. distinct = (op, storage kind, fills-capacity-exactly) + reserve/with_capacity classes",
    12: "every primitive growing call (push, push_str, insert, insert_str, reserve, +=) whose need exceeds the capacity reported before the call and whose result is heap storage: new capacity must be >= len+len/2, >= need and <= max(len+len/2, need). distinct = (storage kind before, sharing class, relation of the added amount to len/2, op)",
    13: "around every shrink_to/shrink_to_fit (and try_ forms): capacity must not grow (beyond 16), not fall below len, not fall below m if it was >= m, and for heap targets with capacity > max(len,m) must be exactly max(len,m) (or inline if <=16), shared or not. distinct = (storage kind, sharing class, capacity/len ratio class, relation of m to len/cap, inline-target)",
    17: "every k-th step all pairs of live handles are compared: ==, !=, cmp, partial_cmp, <, >= against str; Hash through SipHash and a call-recording Hasher; Display/Debug/padded formats; ==/!= against str, &str, String, Cow in both orders; HashMap/BTreeMap<LeanString,_> lookups by &str. distinct = pairs with EQUAL text but DIFFERENT raw representation, classified by (storage kinds, length class, same capacity)",
    20: "every occupied pool slot is an Option<LeanString>: must read as Some, last raw byte <= 0xD1, Option take/replace round trips; the same fixed-seed histories are run in 6 builds ({default, no-default-features, all-features} x {dev, release}) and a rolling digest of the observable trace (op, result, and text/capacity/storage kind/refcount of every handle after every step) must be identical in all of them. distinct = step signatures observed",
}


def plan_for(prop, tier, seed):
    quick = tier == "quick"
    n = int(prop[1:])
    p = {"level": "exploration", "assumptions": list(ASSUME_COMMON), "decides": {n}, "sanitizer_decides": True,
         "rule": RULES.get(n, ""), "primary": n}
    if n == 1:
        p["jobs"] = explore_mix(["default", "sharing", "static", "fillcap"], tier, seed)
    elif n == 2:
        p["jobs"] = explore_mix(["sharing", "static", "errorpath", "shrink"], tier, seed)
    elif n == 3:
        p["jobs"] = explore_mix(["default", "sharing", "errorpath", "shrink"], tier, seed, asan=True, memcheck=True)
    elif n == 7:
        p["jobs"] = explore_mix(["errorpath", "sharing"], tier, seed, q_hist=1000)
    elif n == 8:
        p["jobs"] = explore_mix(["sharing", "static", "default"], tier, seed, q_hist=1000)
    elif n == 9:
        p["jobs"] = explore_mix(["inline", "default"], tier, seed, q_hist=1500)
    elif n == 10:
        p["jobs"] = explore_mix(["static"], tier, seed, q_hist=1500)
    elif n == 11:
        p["jobs"] = explore_mix(["fillcap", "default", "sharing"], tier, seed, q_hist=1000)
    elif n == 12:
        p["jobs"] = explore_mix(["fillcap", "default", "static"], tier, seed, q_hist=1000, miri=False)
        p["sanitizer_decides"] = False
    elif n == 13:
        p["jobs"] = explore_mix(["shrink", "sharing"], tier, seed, q_hist=1500, miri=False)
        p["sanitizer_decides"] = False
    elif n == 17:
        p["jobs"] = explore_mix(["default", "sharing", "static"], tier, seed, q_hist=700, miri=True)
        for j in p["jobs"]:
            j["args"] += ["--cmp-every", "2"]
    elif n == 4:
        p["rule"] = ("random programs from the property's grammar: one heap buffer (17-64 bytes, optional spare capacity), 2-3 threads (the main thread is one of them) each owning a clone (optionally pre-truncated) or borrowing &LeanString, each running 1-4 ops from {clone, clone_from, to_lean_string, drop, read, push, push_str, insert, insert_str, remove, retain, truncate, pop, clear, reserve, shrink_to}; released from one start barrier; yields injected at the hook points between the uniqueness test / decrement and the access they guard. Oracle for races/UAF/leaks: Miri (vector clocks + weak-memory emulation), several -Zmiri-seed and preemption rates; oracle for values: one String model per thread; exactly-once release: alloc count == dealloc count after all handles are dropped. evaluations = executions; distinct_nontrivial = distinct observed interleavings, i.e. distinct sequences of (thread, hook site) per program as recorded by the Relaxed trace log")
        p["assumptions"] += ["Miri's scheduler and its store-buffer emulation SAMPLE schedules and visibility orders; 'every schedule' is not covered and not claimed",
                             "native runs on x86-TSO cannot exhibit ordering bugs; they are used only for actual double free / use-after-free / leak timing through the shadow heap",
                             "ThreadSanitizer is not used: it does not model fence(Acquire) and reports a race on the correct drop protocol"]
        jobs = []
        combos = [(0.01, 300), (0.05, 300), (0.2, 0), (0.05, 700)]
        nshard = 16 if quick else 48
        for i in range(nshard):
            rate, yp = combos[i % len(combos)]
            jobs.append(eng("miri", "conc", ["--shim", "count", "--programs", 18 if quick else 60, "--execs", 3 if quick else 8, "--yield-permille", yp],
                            1, seed * 131 + i, weight=10, timeout=1500 if quick else 10000,
                            miriflags="-Zmiri-seed=%d -Zmiri-preemption-rate=%s" % (seed * 1000 + i, rate), label="miri(preempt=%s,yield=%d)" % (rate, yp)))
        if not quick:
            for i in range(4):
                jobs.append(eng("miri", "conc", ["--shim", "count", "--programs", 40, "--execs", 6, "--yield-permille", 300], 1, seed * 137 + i, weight=10, timeout=10000,
                                miriflags="-Zmiri-tree-borrows -Zmiri-seed=%d -Zmiri-preemption-rate=0.05" % (seed * 77 + i), label="miri-tree-borrows"))
        jobs.append(eng("native-rel", "conc", ["--shim", "shadow", "--programs", 1500 if quick else 20000, "--execs", 10 if quick else 40, "--spin", 200], 8, seed, weight=3))
        jobs.append(eng("native-dbg", "conc", ["--shim", "shadow", "--programs", 300 if quick else 4000, "--execs", 10, "--spin", 50], 4, seed, weight=3))
        p["jobs"] = jobs
    else:
        return None
    for j in p["jobs"]:
        if j["engine"] == "explore":
            j["args"] += ["--stat-props", str(n)]
    return p


def _strip(args, keys):
    out = []
    skip = False
    for a in args:
        if skip:
            skip = False
            continue
        if a in keys:
            skip = True
            continue
        out.append(a)
    return out


def aggregate(prop, plan, results):
    n = plan["primary"]
    decides = plan["decides"]
    viols = []
    cross = {}
    inconc = []
    evals = 0
    sigs = set()
    samples = []
    by_flavour = {}
    monitors = {}
    counters = {}
    matrix = {}
    reports = []
    extra_cov = {}
    total = len(results)
    for r in results:
        job = r["job"]
        fl = job.get("label", job["flavour"])
        bf = by_flavour.setdefault(fl, {"shards_ok": 0, "shards_inconclusive": 0, "steps": 0, "evaluations": 0, "wall_s": 0.0})
        bf["wall_s"] = round(bf["wall_s"] + r["wall"], 1)
        lines = parse_lines(r["out"])
        stat = [l for l in lines if l.get("t") == "stat"]
        hists = [l for l in lines if l.get("t") == "hist"]
        vl = [l for l in lines if l.get("t") == "viol"]
        reps = sanitizer_reports(r["err"]) if (is_miri(job["flavour"]) or job["flavour"] in ("asan", "memcheck")) else []
        base_args = [str(a) for a in r["argv"]]
        for v in vl:
            pn = v.get("prop", 0)
            entry = {
                "property": "C%02d" % pn, "engine": v.get("engine"), "flavour": job["flavour"], "seed": r["seed"],
                "monitor": v.get("monitor"), "message": v.get("msg"), "hist": v.get("hist"),
                "oplog_tail": v.get("oplog_tail"),
                "args": _strip(base_args, {"--histories", "--first-history"}) + (["--first-history", str(v.get("hist", 0)), "--histories", "1"] if "hist" in v else []) + v.get("replay_extra", []),
                "signature": signature(v),
            }
            if pn in decides:
                viols.append(entry)
            else:
                k = "C%02d:%s" % (pn, v.get("monitor"))
                cross[k] = cross.get(k, 0) + 1
        real_reps = [x for x in reps if not x["unsupported"]]
        for rep in real_reps:
            reports.append({"flavour": fl, **rep})
            h = hists[-1] if hists else {}
            entry = {
                "property": prop, "engine": job["engine"], "flavour": job["flavour"], "seed": r["seed"],
                "monitor": rep["tool"], "message": "%s %s" % (rep["kind"], rep["where"]), "hist": h.get("hist"),
                "miriflags": job.get("miriflags"),
                "args": _strip(base_args, {"--histories", "--first-history"}) + (["--first-history", str(h.get("hist", 0)), "--histories", "1"] if "hist" in h else []),
                "signature": "%s:%s:%s" % (rep["tool"], re.sub(r"alloc\d+|0x[0-9a-f]+|\d+", "N", rep["kind"])[:80], rep["fn"][:80]),
            }
            if plan.get("sanitizer_decides", True):
                viols.append(entry)
            else:
                cross["sanitizer:" + rep["kind"][:60]] = cross.get("sanitizer:" + rep["kind"][:60], 0) + 1
        ok = bool(stat) and not r["timed_out"]
        if not ok and not vl and not real_reps:
            reason = "timeout" if r["timed_out"] else "exit %s" % r["rc"]
            unsupported = [x["kind"] for x in reps if x["unsupported"]]
            if unsupported:
                reason = "miri: " + unsupported[0][:120]
            inconc.append({"flavour": fl, "seed": r["seed"], "reason": reason, "stderr_tail": r["err"][-600:]})
            bf["shards_inconclusive"] += 1
        else:
            bf["shards_ok"] += 1
        for s in stat:
            cov = s.get("cov")
            if cov:
                bf["steps"] += cov.get("steps", 0)
                for pc in cov.get("props", []):
                    if pc["prop"] == n:
                        evals += pc["evals"]
                        bf["evaluations"] += pc["evals"]
                        sigs.update(pc.get("sigs", []))
                        for sm in pc.get("samples", []):
                            if len(samples) < 8 and sm not in samples:
                                samples.append(sm)
                for k, v in cov.get("monitors", {}).items():
                    m = monitors.setdefault(k, [0, 0])
                    m[0] += v[0]
                    m[1] += v[1]
                for k, v in cov.get("counters", {}).items():
                    counters[k] = counters.get(k, 0) + v
                for k, v in cov.get("matrix", {}).items():
                    matrix[k] = matrix.get(k, 0) + v
            # engine-specific coverage
            ec = s.get("ecov")
            if ec:
                evals += ec.get("evals", 0)
                bf["evaluations"] += ec.get("evals", 0)
                sigs.update(ec.get("sigs", []))
                for sm in ec.get("samples", []):
                    if len(samples) < 8 and sm not in samples:
                        samples.append(sm)
                for k, v in ec.get("counters", {}).items():
                    if isinstance(v, (int, float)):
                        counters[k] = counters.get(k, 0) + v
                for k, v in ec.get("info", {}).items():
                    extra_cov.setdefault(k, v)
                if "exhaustive" in ec:
                    key = "exhaustive_parts"
                    extra_cov.setdefault(key, [])
                    if ec.get("exhaustive_scope") and ec["exhaustive_scope"] not in extra_cov[key] and ec["exhaustive"]:
                        extra_cov[key].append(ec["exhaustive_scope"])
            if "swallowed_hint_failures" in s:
                counters["hint_reservation_failures_ignored_by_design"] = counters.get("hint_reservation_failures_ignored_by_design", 0) + s["swallowed_hint_failures"]
    fatal = len(inconc) * 2 > total
    for i in inconc:
        i["fatal"] = fatal
    unreached = []
    coverage = {
        "evaluations": evals,
        "distinct_nontrivial": len(sigs),
        "rule": plan.get("rule", ""),
        "samples": samples,
        "by_flavour": by_flavour,
        "monitors": {k: {"evaluated": v[0], "precondition_met": v[1]} for k, v in sorted(monitors.items())},
        "counters": counters,
        "sanitizer_reports": reports[:20],
        "cross_property_events": cross,
        "shards": total,
    }
    if matrix:
        coverage["matrix"] = dict(sorted(matrix.items()))
    coverage.update(extra_cov)
    if plan.get("exhaustive"):
        coverage["exhaustive"] = True
    return {"violations": viols, "coverage": coverage, "inconclusive": inconc}


def signature(v):
    msg = v.get("msg", "")
    m = re.match(r"step \d+ (\w+)", msg)
    op = m.group(1) if m else v.get("case", "")
    return "%s:%s" % (v.get("monitor"), op)
