"""Per-property plans (which engines, flavours, budgets) and aggregation of harness output."""
import json, os, re
from common import *  # noqa

MIRI_MAXLEN = ["--max-len", "70", "--refuse-over", str(1 << 20), "--shim", "track", "--announce", "--cmp-every", "0"]
ASAN_ARGS = ["--shim", "track", "--announce", "--refuse-over", str(1 << 26)]
MEMCHECK_ARGS = ["--shim", "track", "--announce", "--refuse-over", str(1 << 24)]

ASSUME_COMMON = [
    "std::string::String (and str/core::fmt) is the specification of text semantics",
    "histories, inputs and schedules are sampled by a seeded generator unless 'exhaustive' says otherwise; nothing outside the executed runs is claimed",
    "the verif-hooks feature only redirects the crate's three allocator calls and exposes a Relaxed load of the reference count; with no shim installed it is a pass-through",
]


def ex(flavour, profile, histories, steps, shards, seed, extra=None, **kw):
    args = ["--profile", profile, "--histories", histories, "--steps", steps]
    if is_miri(flavour):
        args += MIRI_MAXLEN
    elif flavour == "asan":
        args += ASAN_ARGS
    elif flavour == "memcheck":
        args += MEMCHECK_ARGS
    else:
        args += ["--shim", "shadow"]
    if extra:
        args += extra
    j = {"flavour": flavour, "engine": "explore", "args": args, "shards": shards, "seed": seed}
    j.update(kw)
    return j


def eng(flavour, engine, args, shards, seed, **kw):
    a = list(args)
    if is_miri(flavour):
        a = ["--shim", "track", "--refuse-over", str(1 << 20), "--announce", "--miri", "1", "--max-len", "70"] + a
    elif flavour == "asan":
        a += ["--shim", "track", "--announce", "--refuse-over", str(1 << 26)]
    elif flavour == "memcheck":
        a += ["--shim", "track", "--announce", "--refuse-over", str(1 << 24)]
    j = {"flavour": flavour, "engine": engine, "args": a, "shards": shards, "seed": seed}
    j.update(kw)
    return j


def explore_mix(profiles, tier, seed, native=True, dbg=True, miri=True, asan=False, memcheck=False,
                q_hist=1500, t_hist=60000, steps=120, q_miri_steps=110, t_miri_steps=700):
    """Standard flavour mix for explorer-based properties."""
    quick = tier == "quick"
    jobs = []
    per = max(1, 16 // len(profiles))
    for pi, prof in enumerate(profiles):
        if native:
            jobs.append(ex("native-rel", prof, q_hist if quick else t_hist, steps, per, seed, weight=2))
        if dbg:
            jobs.append(ex("native-dbg", prof, max(50, (q_hist if quick else t_hist) // 12), steps, per, seed, weight=2))
        if miri:
            n = q_miri_steps if quick else t_miri_steps
            jobs.append(ex("miri", prof, max(1, n // 55), 55, per, seed, weight=10, timeout=1500 if quick else 7200))
        if asan:
            jobs.append(ex("asan", prof, (q_hist if quick else t_hist) // 6, steps, max(1, per // 2), seed, weight=3))
        if memcheck:
            jobs.append(ex("memcheck", prof, 60 if quick else 400, steps, 1 if quick else max(1, per // 2), seed, weight=5, timeout=3000))
    if native:
        # long texts (far beyond the inline/boundary region the other runs dwell in)
        jobs.append(ex("native-rel", profiles[0], 60 if quick else 3000, 80, 4, seed + 41, extra=["--max-len", "200000"], weight=2, label="native-rel(big texts)"))
    if miri and not quick:
        # second aliasing model + 32-bit and big-endian targets
        for prof in profiles[:2]:
            jobs.append(ex("miri", prof, 4, 55, 4, seed + 17, weight=10, timeout=7200, miriflags="-Zmiri-tree-borrows", label="miri-tree-borrows"))
        jobs.append(ex("miri-rel", profiles[0], 4, 55, 4, seed + 19, weight=10, timeout=7200, label="miri-release-profile"))
        jobs.append(ex("miri-i686", profiles[0], 4, 55, 4, seed + 23, weight=10, timeout=7200, label="miri-i686"))
        jobs.append(ex("miri-be", profiles[0], 4, 55, 4, seed + 29, weight=10, timeout=7200, label="miri-powerpc64-be"))
    return jobs


RULES = {
    1: "closed-loop generated histories over a pool of <=8 handles, every op of the vocabulary with boundary-biased arguments (one constructor in six builds a near-duplicate of a live text: same length, one late character of the same UTF-8 width changed, and clone_from prefers such a twin as its destination); after EVERY step every live handle is compared byte-for-byte with its String model and every returned value with String's. distinct_nontrivial = distinct (op, storage kind before, sharing class, length class, outcome, storage kind after) signatures of steps that changed the target's text, presence or storage kind",
    2: "sharing-heavy histories; before each step every non-target handle is snapshotted (len, as_ptr, capacity, storage kind, raw 2 words) and compared after the step, and its text is compared with its untouched String model. A step counts (non-trivial) only if the target shared a heap buffer or static text with >=1 other live handle when the step ran; distinct = (op, sharing class, outcome, storage kind) signatures of such steps",
    3: "every alloc/realloc/dealloc of the crate goes through the shim (SHADOW natively: guard zones, 0xCD fill, moving realloc, 0xDD poison + quarantine; TRACK under Miri/ASan/memcheck: live-table + layout check while the sanitizer sees the real events). After every step: refcount == number of live handles per buffer, live blocks == distinct buffers referenced, block size == 16 + capacity; at the end of every history all handles are dropped and the heap must be empty. distinct = step signatures as in C01 (all steps count)",
    7: "String's own panic is the oracle (catch_unwind on both); after a rejected call the target's len/ptr/capacity/storage/raw words, all other handles, the set of live blocks and all reference counts must be unchanged. distinct = (op, storage kind, sharing class, length class) of calls String rejects",
    8: "every clone/clone_from/From<&LeanString>/to_lean_string(LeanString) step: allocator request delta must be zero (one dealloc allowed when the destination held the last reference of another buffer), copy.as_ptr()==src.as_ptr() for heap/static, raw words equal for inline, refcount +1, copy == src. distinct = (route, source storage kind, source sharing class, length class, dst-was-last-owner)",
    9: "constructors are built into a temporary and the shim's request counter is read before assignment: <=16 bytes => 0 requests, inline storage; >=17 bytes through a text route => exactly 1 alloc, 0 realloc/dealloc, capacity == len; edits of inline strings whose result is <=16 bytes => 0 requests, still inline. distinct = (route, length, final byte for 16-byte texts) / (edit op, len before, len after)",
    10: "'static texts are harness-leaked writable buffers compared with pristine copies after every step; from_static_str / clone / pop / truncate / clear on static-stored handles must issue 0 requests and keep as_ptr; first write must leave static storage; the static profile also 'lands' borrowed texts on exactly the inline limit (and limit+-1, of both pointer widths) by truncate/pop and then runs the zero-growth operations there (reserve(0), empty insert_str/push_str/+=/write!, extend with an empty iterator or a size hint of 0, shrink_to(0)). distinct = (op, static length class, resulting storage)",
    11: "capacity()>=len() for every handle after every step; with_capacity(n)/reserve(n) postconditions incl. exclusive ownership; append/insert whose result fits the capacity reported just before the call on an exclusively owned (inline or refcount-1 heap) string => 0 allocator requests and unchanged as_ptr. distinct = (op, storage kind, fills-capacity-exactly) + reserve/with_capacity classes",
    12: "every primitive growing call (push, push_str, insert, insert_str, reserve, +=) whose need exceeds the capacity reported before the call and whose result is heap storage: new capacity must be >= len+len/2, >= need and <= max(len+len/2, need). distinct = (storage kind before, sharing class, relation of the added amount to len/2, op)",
    13: "around every shrink_to/shrink_to_fit (and try_ forms): capacity must not grow (beyond 16), not fall below len, not fall below m if it was >= m, and for heap targets with capacity > max(len,m) must be exactly max(len,m) (or inline if <=16), shared or not. distinct = (storage kind, sharing class, capacity/len ratio class, relation of m to len/cap, inline-target)",
    17: "every k-th step all pairs of live handles are compared: ==, !=, cmp, partial_cmp, <, >= against str; Hash through SipHash and a call-recording Hasher; Display/Debug/padded formats; ==/!= against str, &str, String, Cow in both orders; HashMap/BTreeMap<LeanString,_> lookups by &str. distinct = pairs with EQUAL text but DIFFERENT raw representation, classified by (storage kinds, length class, same capacity)",
    20: "every occupied pool slot is an Option<LeanString>: must read as Some, last raw byte <= 0xD1, Option take/replace round trips; the same fixed-seed histories are run in 6 builds ({default, no-default-features, all-features} x {dev, release}) and a rolling digest of the observable trace (op, result, and text/capacity/storage kind/refcount of every handle after every step) must be identical in all of them. distinct = step signatures observed",
}


BIG32_PROPS = {1, 2, 3, 6, 8, 9, 10, 11, 12, 13, 20}
BIG32_RULE = (" | 2^24 boundary (engine big32): on 32-bit targets texts of 2^24-1 bytes or more keep their length in the heap buffer (shared by all handles) "
              "and capacities above 2^24-2 change the allocation layout; Miri interprets the crate for i686 (debug and release profile: the crate's debug assertions would otherwise mask release behaviour) and for big-endian armeb while random histories push lengths "
              "and capacities across that boundary in unique, shared and static handles. Oracles are O(1)+memcmp: every live handle == its String model after every step, "
              "reference count == live handles pointing at the same bytes, live allocator blocks == distinct buffers, capacity rules of C11-C13, clone/static request counts")


def big32_jobs(tier, seed):
    quick = tier == "quick"
    jobs = []
    for fl, label, nq, nt in (("miri-i686", "miri-i686(2^24 boundary)", 2, 8), ("miri-i686-rel", "miri-i686-release(2^24 boundary)", 2, 4),
                              ("miri-be32", "miri-armeb-be32(2^24 boundary)", 2, 8)):
        for i in range(nq if quick else nt):
            jobs.append(eng(fl, "big32", ["--cases", 7, "--steps", 30 if quick else 80, "--first-case", 7 * i + (14 if fl.endswith("-rel") else 0), "--refuse-over", 1 << 28] + (["--kinds", "4,6,4,0,4,5,3"] if fl.endswith("-rel") else []), 1, seed + 70 + i,
                            weight=10, timeout=1500 if quick else 7200, label=label))
    jobs.append(eng("native-rel", "big32", ["--shim", "shadow", "--cases", 28 if quick else 700, "--steps", 60], 2, seed + 75, weight=3, label="native-rel(2^24 boundary)"))
    return jobs


def sharded(flavour, engine, args, n, seed, mod=None, **kw):
    """n processes of an enumerating engine, each taking the outer cases k with k % mod == rem"""
    mod = mod or n
    return [eng(flavour, engine, list(args) + ["--mod", mod, "--rem", (i * (mod // n) + (seed % max(1, mod // n))) % mod], 1, seed + i, **kw) for i in range(n)]


def plan_for(prop, tier, seed):
    quick = tier == "quick"
    n = int(prop[1:])
    p = {"level": "exploration", "assumptions": list(ASSUME_COMMON), "decides": {n}, "sanitizer_decides": True,
         "rule": RULES.get(n, ""), "primary": n}
    MT = dict(weight=10, timeout=1500 if quick else 10000)
    HUGE = [eng("native-rel", "huge", ["--shim", "shadow"], 1, seed + 51, weight=4, label="native-rel(huge texts)")]
    if n == 1:
        p["jobs"] = explore_mix(["default", "sharing", "static", "fillcap", "errorpath"], tier, seed) + HUGE
        if quick:
            p["jobs"] += [ex("miri-i686", "default", 2, 55, 2, seed + 61, weight=10, timeout=1500, label="miri-i686"),
                          ex("miri-be", "sharing", 2, 55, 1, seed + 62, weight=10, timeout=1500, label="miri-powerpc64-be"),
                          ex("miri-be32", "default", 2, 55, 1, seed + 63, weight=10, timeout=1500, label="miri-armeb-be32"),
                          ex("miri-rel", "default", 2, 55, 1, seed + 64, weight=10, timeout=1500, label="miri-release-profile")]
    elif n == 2:
        p["jobs"] = explore_mix(["sharing", "static", "errorpath", "shrink"], tier, seed) + HUGE
        if quick:
            p["jobs"] += [ex("miri-rel", "sharing", 2, 55, 2, seed + 64, weight=10, timeout=1500, label="miri-release-profile")]
    elif n == 3:
        p["jobs"] = explore_mix(["default", "sharing", "errorpath", "shrink"], tier, seed, asan=True, memcheck=True) + HUGE + \
            [eng("asan", "huge", ["--max", 1 << 20], 1, seed + 52, weight=3)]
        if quick:
            # debug assertions off under Miri too (they would turn some misuse into a panic before the UB)
            p["jobs"] += [ex("miri-rel", "sharing", 2, 55, 2, seed + 55, weight=10, timeout=1500, label="miri-release-profile")]
        # "released exactly once ... when all handles are gone nothing remains allocated" also when the
        # handles are released from different threads: the concurrent runner's heap accounting, labelled C03
        p["jobs"] += [eng("native-rel", "conc", ["--shim", "shadow", "--programs", 1500 if quick else 20000, "--execs", 10 if quick else 40, "--spin", 200, "--hammer-permille", 100, "--prop", 3], 6, seed + 53, weight=3, label="native-rel(threads)"),
                      eng("native-dbg", "conc", ["--shim", "shadow", "--programs", 300 if quick else 3000, "--execs", 10, "--spin", 50, "--hammer-permille", 60, "--prop", 3], 2, seed + 54, weight=3, label="native-dbg(threads)")]
        for i in range(4 if quick else 12):
            p["jobs"].append(eng("miri", "conc", ["--shim", "count", "--programs", 12 if quick else 40, "--execs", 3 if quick else 6, "--yield-permille", 300, "--prop", 3], 1, seed * 139 + i, weight=10, timeout=1500 if quick else 10000,
                                 miriflags="-Zmiri-seed=%d -Zmiri-preemption-rate=0.05" % (seed * 991 + i), label="miri(threads)"))
    elif n == 4:
        p["rule"] = RULE_C04
        p["assumptions"] += ["Miri's scheduler and its store-buffer emulation SAMPLE schedules and visibility orders; 'every schedule' is not covered and not claimed",
                             "native runs on x86-TSO cannot exhibit ordering bugs; they are used only for actual double free / use-after-free / leak timing through the shadow heap",
                             "ThreadSanitizer is not used: it does not model fence(Acquire) and reports a race on the correct drop protocol"]
        jobs = []
        combos = [(0.01, 300), (0.05, 300), (0.2, 0), (0.05, 700)]
        nshard = 16 if quick else 48
        for i in range(nshard):
            rate, yp = combos[i % len(combos)]
            # every third shard with the release profile: the crate's debug assertions contain Acquire loads
            # (debug_assert!(self.is_unique())) that would otherwise restore a missing happens-before edge
            fl = "miri-rel" if i % 3 == 2 else "miri"
            # ... and those shards, plus one debug-profile shard in eight, run only "directed pairs" (one thread
            # gives its handle up while the other makes ONE copy-or-in-place decision, every decision site in turn)
            directed = 1000 if (fl == "miri-rel" or i % 8 == 0) else 250
            jobs.append(eng(fl, "conc", ["--shim", "count", "--programs", 18 if quick else 60, "--execs", 3 if quick else 8, "--yield-permille", yp, "--directed-permille", directed],
                            1, seed * 131 + i, weight=10, timeout=1500 if quick else 10000,
                            miriflags="-Zmiri-seed=%d -Zmiri-preemption-rate=%s" % (seed * 1000 + i, rate), label="%s(preempt=%s,yield=%d)" % (fl, rate, yp)))
        if not quick:
            for i in range(4):
                jobs.append(eng("miri", "conc", ["--shim", "count", "--programs", 40, "--execs", 6, "--yield-permille", 300], 1, seed * 137 + i, weight=10, timeout=10000,
                                miriflags="-Zmiri-tree-borrows -Zmiri-seed=%d -Zmiri-preemption-rate=0.05" % (seed * 77 + i), label="miri-tree-borrows"))
        jobs.append(eng("native-rel", "conc", ["--shim", "shadow", "--programs", 1500 if quick else 20000, "--execs", 10 if quick else 40, "--spin", 200, "--hammer-permille", 100], 8, seed, weight=3))
        jobs.append(eng("native-dbg", "conc", ["--shim", "shadow", "--programs", 300 if quick else 4000, "--execs", 10, "--spin", 50, "--hammer-permille", 60], 4, seed, weight=3))
        p["jobs"] = jobs
    elif n == 5:
        p["level"] = "fault_enumeration"
        p["rule"] = ("for each generated history (profiles sharing/default/static/errorpath/shrink, closed-loop) the crate's allocation+reallocation requests are counted in a clean run (N), then the history is re-run once per k in 1..=N with request k failing (thorough: also pairs (k,k+1..3)); both try_ and plain forms occur (plain under catch_unwind, panic message compared with ReserveError's text). After the failed call: value unchanged (iterator-driven ops: before + prefix of items), other handles unchanged, refcount/heap accounting exact; the history continues to its end and the heap must be empty. Extra: random single-step faults in errorpath histories. evaluations = failed calls judged; distinct_nontrivial = distinct (op, storage kind, sharing class, failed/refused) signatures of failed calls")
        jobs = [eng("native-rel", "faults", ["--shim", "shadow", "--histories", 60 if quick else 1200, "--steps", 50] + ([] if quick else ["--pairs"]), 16, seed, weight=3),
                eng("native-dbg", "faults", ["--shim", "shadow", "--histories", 15 if quick else 150, "--steps", 50], 8, seed + 1, weight=3)]
        jobs += [eng("miri", "faults", ["--histories", 1 if quick else 8, "--steps", 14], 16, seed + 2, **MT)]
        if not quick:
            jobs += [eng("asan", "faults", ["--histories", 100, "--steps", 50], 8, seed + 3, weight=4)]
        jobs += [ex("native-rel", "errorpath", 800 if quick else 40000, 120, 8, seed + 4, weight=2)]
        p["jobs"] = jobs
        p["decides"] = {5}
    elif n == 6:
        p["rule"] = ("the size table V = {0,1,15,16,17} U {2^i, 2^i+-1, 2^i+-2 : i<64} U {2^56-1+-2, isize::MAX+-2, usize::MAX-2..} (and v-len) is run COMPLETELY against 9 entry points (try_/with_capacity, try_/reserve, try_/shrink_to, extend<char> and collect<char> with that size_hint lower bound, extend<&str>) in 10 target states (inline empty/short/16, static, static truncated, heap unique exact/spare, heap shared same/shorter/longer), followed by pushes/pops/retains on the target and its siblings; requests above 256 MiB are refused by the shim deterministically. Ok => postcondition (capacity>=need, exclusive ownership); Err/alloc-panic => value, siblings, refcounts, heap unchanged; any other panic (overflow) or abort is a violation. Same values are injected at random points of errorpath histories. distinct_nontrivial = distinct (value, variant, state, entry point) cases + failed-call signatures")
        jobs = [eng("native-rel", "sizes", ["--shim", "shadow"], 1, seed, weight=3),
                eng("native-dbg", "sizes", ["--shim", "shadow"], 1, seed + 1, weight=3)]
        jobs += sharded("miri", "sizes", ["--boundary-only", "--stride", 24 if quick else 4], 16, seed + 2, **MT)
        # the same table on a 32-bit target (different limits: 2^24-2 inline length, 2^31 allocation limit, no 2^56 capacity limit)
        jobs += sharded("miri-i686", "sizes", ["--boundary-only", "--stride", 3], 2 if quick else 16, seed + 7, mod=64 if quick else 16, label="miri-i686", **MT)
        jobs += [ex("native-rel", "errorpath", 600 if quick else 30000, 120, 6, seed + 4, weight=2),
                 ex("native-dbg", "errorpath", 100 if quick else 3000, 120, 4, seed + 5, weight=2)]
        if not quick:
            jobs += [eng("asan", "sizes", [], 1, seed + 6, weight=4)]
        p["jobs"] = jobs
        p["exhaustive_when"] = "sizes"
    elif n == 7:
        jobs = [eng("native-rel", "indices", ["--shim", "shadow", "--max-chars", 6, "--sample-pct", 6 if quick else 100], 8 if quick else 1, seed, weight=3),
                eng("native-dbg", "indices", ["--shim", "shadow", "--max-chars", 4, "--sample-pct", 20 if quick else 100], 4 if quick else 1, seed + 1, weight=3)]
        if not quick:
            jobs = sharded("native-rel", "indices", ["--shim", "shadow", "--max-chars", 6], 16, seed, weight=3) + \
                   sharded("native-dbg", "indices", ["--shim", "shadow", "--max-chars", 5], 16, seed + 1, weight=3) + \
                   [eng("asan", "indices", ["--max-chars", 4], 1, seed + 7, weight=4)]
        jobs += sharded("miri", "indices", ["--max-chars", 2], 16, seed + 2, mod=160 if quick else 16, **MT)
        jobs += [ex("native-rel", "errorpath", 500 if quick else 20000, 120, 4, seed + 4, weight=2),
                 ex("native-rel", "sharing", 500 if quick else 20000, 120, 4, seed + 5, weight=2),
                 # inline strings with a history (stale bytes behind the end after remove/retain): states the
                 # enumerating engine does not construct
                 ex("native-rel", "inline", 800 if quick else 30000, 120, 4, seed + 6, weight=2),
                 ex("native-dbg", "inline", 100 if quick else 3000, 120, 2, seed + 7, weight=2)]
        p["jobs"] = jobs
    elif n == 8:
        jobs = [eng("native-rel", "clones", ["--shim", "shadow"], 1, seed, weight=3),
                eng("native-dbg", "clones", ["--shim", "shadow", "--max-big-len", 1 << 20], 1, seed + 1, weight=3)]
        jobs += sharded("miri", "clones", ["--max-big-len", 65536], 16, seed + 2, **MT)
        jobs += explore_mix(["sharing", "static", "default"], tier, seed + 3, q_hist=800, miri=False)
        # "dropping either one leaves the other intact", also when clones are taken and dropped on other threads
        jobs += [eng("native-rel", "conc", ["--shim", "shadow", "--programs", 1500 if quick else 20000, "--execs", 10 if quick else 40, "--spin", 200, "--hammer-permille", 100, "--prop", 8], 6, seed + 53, weight=3, label="native-rel(threads)")]
        for i in range(4 if quick else 12):
            jobs.append(eng("miri", "conc", ["--shim", "count", "--programs", 12 if quick else 40, "--execs", 3 if quick else 6, "--yield-permille", 300, "--prop", 8], 1, seed * 149 + i, weight=10, timeout=1500 if quick else 10000,
                            miriflags="-Zmiri-seed=%d -Zmiri-preemption-rate=0.05" % (seed * 997 + i), label="miri(threads)"))
        p["jobs"] = jobs
    elif n == 9:
        jobs = [eng("native-rel", "construct", ["--shim", "shadow", "--reps", 4 if quick else 40], 1, seed, weight=3),
                eng("native-dbg", "construct", ["--shim", "shadow", "--reps", 2 if quick else 10], 1, seed + 1, weight=3)]
        jobs += sharded("miri", "construct", ["--reps", 1], 24 if quick else 6, seed + 2, **MT)
        jobs += explore_mix(["inline", "default"], tier, seed + 3, q_hist=1200, miri=False)
        jobs += [ex("miri", "inline", 2 if quick else 12, 55, 4, seed + 5, **MT)]
        # the inline limit is two machine words: 8 bytes on 32-bit targets
        jobs += sharded("miri-i686", "construct", ["--reps", 1], 2 if quick else 12, seed + 6, mod=48 if quick else 12, label="miri-i686", **MT)
        jobs += [ex("miri-i686", "inline", 2 if quick else 8, 55, 1 if quick else 4, seed + 7, label="miri-i686", **MT)]
        p["jobs"] = jobs
    elif n == 10:
        p["jobs"] = explore_mix(["static"], tier, seed, q_hist=1500) + [
            eng("native-rel", "eqclass", ["--shim", "shadow", "--rounds", 300], 2, seed + 7, weight=2),
            eng("native-rel", "growth", ["--shim", "shadow", "--max-n", 1000], 1, seed + 8, weight=2)]
    elif n == 11:
        p["jobs"] = explore_mix(["fillcap", "default", "sharing"], tier, seed, q_hist=1000) + [
            eng("native-rel", "growth", ["--shim", "shadow", "--max-n", 100000], 1, seed + 8, weight=2),
            eng("native-dbg", "growth", ["--shim", "shadow", "--max-n", 10000], 1, seed + 9, weight=2)]
    elif n == 12:
        p["jobs"] = [eng("native-rel", "growth", ["--shim", "shadow"], 1, seed, weight=3),
                     eng("native-dbg", "growth", ["--shim", "shadow", "--max-n", 1000000], 1, seed + 1, weight=3)] + \
            explore_mix(["fillcap", "default", "static"], tier, seed + 2, q_hist=1000, miri=False) + \
            sharded("miri", "growth", ["--max-n", 64], 16 if quick else 24, seed + 3, mod=48 if quick else 24, **MT)
    elif n == 13:
        p["jobs"] = [eng("native-rel", "shrink", ["--shim", "shadow"], 1, seed, weight=3),
                     eng("native-dbg", "shrink", ["--shim", "shadow"], 1, seed + 1, weight=3)] + \
            explore_mix(["shrink", "sharing"], tier, seed + 2, q_hist=1500, miri=False) + \
            sharded("miri", "shrink", [], 16, seed + 3, mod=160 if quick else 32, **MT)
    elif n == 14:
        p["rule"] = ("x.to_lean_string().as_bytes() vs core::fmt::Display written into a stack buffer, for all 24 integer types (12 primitive + NonZero): EVERY value of the 8- and 16-bit types (thorough: also every value of i32/u32 in release and in the debug-assertion+opt build); for the others every 10^k and 2^k with +-3 neighbours and both signs, type extremes +-3, plus seeded random values stratified so every digit count gets an equal share; is_heap_allocated() == (text longer than 16 bytes). Miri runs the boundary set per type (out-of-bounds digit writes are UB before they are a wrong string). distinct_nontrivial = distinct (type, digit count, sign) cells observed")
        jobs = [eng("native-rel", "ints", ["--shim", "off", "--threads", 16, "--random", 8000000 if quick else 200000000] + ([] if quick else ["--exhaustive32"]), 1, seed, weight=5, timeout=3000),
                eng("relassert", "ints", ["--shim", "shadow", "--threads", 16, "--random", 1000000 if quick else 20000000] + ([] if quick else ["--exhaustive32"]), 1, seed + 1, weight=5, timeout=6000),
                eng("native-dbg", "ints", ["--shim", "shadow", "--threads", 16, "--random", 400000], 1, seed + 2, weight=3)]
        for i, t in enumerate(["i8", "u8", "i16", "u16", "i32", "u32", "i64", "u64", "isize", "usize", "i128", "u128"]):
            if t in ("i8", "u8", "i16", "u16"):
                continue
            jobs.append(eng("miri", "ints", ["--only", t, "--random", 0] + (["--kstep", 3] if (quick and "128" in t) else []), 1, seed + 10 + i, label="miri", **MT))
        if quick:
            # on 32-bit targets isize/usize/i32 take the `as u32` path: two small shards in every run
            for i, t in enumerate(["isize", "usize"]):
                jobs.append(eng("miri-i686", "ints", ["--only", t, "--random", 0], 1, seed + 30 + i, label="miri-i686", **MT))
        if not quick:
            for i, t in enumerate(["i32", "i64", "isize", "usize", "u128"]):
                jobs.append(eng("miri-i686", "ints", ["--only", t, "--random", 0], 1, seed + 30 + i, label="miri-i686", **MT))
                jobs.append(eng("miri-be", "ints", ["--only", t, "--random", 0], 1, seed + 40 + i, label="miri-powerpc64-be", **MT))
                jobs.append(eng("miri-be32", "ints", ["--only", t, "--random", 0], 1, seed + 50 + i, label="miri-armeb-be32", **MT))
        p["jobs"] = jobs
    elif n == 15:
        p["rule"] = ("to_lean_string()/try_to_lean_string() vs to_string() for both bools, EVERY char, generated Strings, LeanStrings in inline/static/heap storage, &str/Box<str>/fmt::Arguments/Wrapping (generic arm), scripted Display impls writing 0-6 pieces through write_str/write!/write_char/padding with an error injected after every piece position (must give Err(Fmt), never a partial string); f32/f64: text must parse back to identical bits (NaN to NaN): every exponent x sampled mantissas + specials (thorough: ALL 2^32 f32 patterns), f64 every exponent x fixed mantissas + random patterns. distinct_nontrivial = specialisation arms / cells with executions; an arm with zero executions makes the run inconclusive")
        jobs = [eng("native-rel", "tls", ["--shim", "off", "--threads", 16, "--f64-random", 4000000 if quick else 200000000] + ([] if quick else ["--f32-exhaustive", "--strings", 400000, "--scripts", 60000]), 1, seed, weight=5, timeout=6000),
                eng("native-dbg", "tls", ["--shim", "shadow", "--threads", 16, "--char-stride", 7, "--f32-mantissas", 64, "--f64-random", 200000, "--strings", 4000, "--scripts", 600], 1, seed + 1, weight=3)]
        jobs += [eng("miri", "tls", ["--char-stride", 30011, "--strings", 12, "--scripts", 8, "--f64-random", 60, "--f32-mantissas", 1], 8, seed + 2, **MT)]
        p["jobs"] = jobs
        p["require_cells"] = ["arm:bool", "arm:char", "arm:String", "arm:LeanString", "arm:generic", "arm:f32", "arm:f64", "generic_fmt_error_positions"]
    elif n == 16:
        p["rule"] = ("from_utf8/from_utf8_lossy/from_utf16/from_utf16_lossy vs their String counterparts (acceptance and text; error values not compared) on ALL sequences up to the stated length over the 16-symbol class alphabet and the 25-symbol extended alphabet, the same sequences embedded after 12/15/16/17-byte valid prefixes (decoder state straddles the inline limit and the with_capacity(buf.len()) guess), all u16 sequences over {0,41,D7FF,D800,DBFF,DC00,DFFF,E000,FFFD,FFFF}, plus long nearly-valid inputs made by mutating valid text, plus block edges (one valid or broken multi-byte sequence at every offset from B-5 to B+2 in ASCII filler for B = 4 KiB ... 1 MiB, with and without a second block behind it). distinct_nontrivial = distinct (outcome class, length) cells")
        jobs = [eng("native-rel", "utf", ["--shim", "off", "--threads", 16] + (["--min-alpha-len", 5, "--ext-alpha-len", 4, "--u16-len", 5, "--long", 200000, "--pos-max", 1100] if quick else ["--min-alpha-len", 7, "--ext-alpha-len", 6, "--u16-len", 6, "--prefixed-len", 5, "--long", 3000000, "--pos-max", 9000]), 1, seed, weight=5, timeout=10000),
                eng("native-rel", "utf", ["--shim", "shadow", "--threads", 1, "--min-alpha-len", 3, "--ext-alpha-len", 2, "--u16-len", 3, "--prefixed-len", 3, "--long", 20000, "--pos-max", 300, "--edge-max", 131072], 4, seed + 1, weight=3, label="native-rel(shadow-heap)"),
                eng("native-dbg", "utf", ["--shim", "shadow", "--threads", 16, "--min-alpha-len", 4, "--ext-alpha-len", 3, "--u16-len", 4, "--long", 20000, "--pos-max", 600, "--edge-max", 65536], 1, seed + 2, weight=3)]
        jobs += [eng("miri", "utf", ["--min-alpha-len", 2, "--ext-alpha-len", 1, "--u16-len", 2, "--prefixed-len", 1, "--long", 12 if quick else 200, "--pos-max", 6 if quick else 40, "--edge-max", 0], 4, seed + 3, **MT)]
        p["jobs"] = jobs
        p["exhaustive_when"] = "utf"
    elif n == 17:
        p["jobs"] = explore_mix(["default", "sharing", "static"], tier, seed, q_hist=500, miri=False) + [
            eng("native-rel", "eqclass", ["--shim", "shadow", "--rounds", 2000 if quick else 200000], 8, seed + 3, weight=3),
            eng("native-dbg", "eqclass", ["--shim", "shadow", "--rounds", 300 if quick else 20000], 4, seed + 4, weight=3),
            eng("miri", "eqclass", ["--rounds", 1 if quick else 6], 16, seed + 5, **MT)]
        for j in p["jobs"]:
            if j["engine"] == "explore":
                j["args"] += ["--cmp-every", "3"]
    elif n == 18:
        jobs = [eng("native-rel", "panics", ["--shim", "shadow", "--rounds", 8 if quick else 400], 8, seed, weight=3),
                eng("native-dbg", "panics", ["--shim", "shadow", "--rounds", 2 if quick else 40], 4, seed + 1, weight=3)]
        jobs += sharded("miri", "panics", ["--rounds", 1], 48 if quick else 12, seed + 2, **MT)
        if quick:
            jobs += sharded("memcheck", "panics", ["--rounds", 1], 4, seed + 3, mod=8, weight=5, timeout=3000)
        else:
            jobs += [eng("memcheck", "panics", ["--rounds", 2], 4, seed + 3, weight=5, timeout=6000),
                     eng("asan", "panics", ["--rounds", 10], 4, seed + 4, weight=4)]
        jobs += [ex("native-rel", "errorpath", 500 if quick else 30000, 120, 4, seed + 5, weight=2)]
        p["jobs"] = jobs
        p["rule"] = ("for each target state (inline empty/short/16, static, static truncated, heap unique/spare/shared same/shorter/longer) x each callback-driven op (retain; extend and collect with 7 item types; to_lean_string of a Display type) x generated texts: EVERY panic position k = 1..=(number of callback invocations) is executed under catch_unwind, the String model runs the same panicking callback, then all monitors run (text == String's, other handles unchanged, refcounts, heap accounting incl. no leaked block for results that never existed) and the case ends with every handle dropped and an empty heap. distinct_nontrivial = distinct (op, state, k-class first/middle/last) cells")
    elif n == 19:
        p["rule"] = ("harness built with lean_string features serde+arbitrary: serde_json text and the exact sequence of Serializer calls (recording serializer) vs String; Deserialize through StrDeserializer, BorrowedStrDeserializer, StringDeserializer, into_deserializer, serde_json from_str/from_slice/from_reader (incl. hand-written \\u escapes and surrogate pairs), BytesDeserializer and BorrowedBytesDeserializer on every sequence up to the stated length over the UTF-8 class alphabet (plus 15-byte prefixes and long mutated inputs) vs String's Deserialize (and Ok <=> valid UTF-8); arbitrary/arbitrary_take_rest/size_hint vs <&str> on the same Unstructured bytes incl. bytes consumed. distinct_nontrivial = distinct entry points exercised")
        jobs = [eng("cfg-all-rel", "serde", ["--shim", "shadow", "--strings", 30000 if quick else 1000000, "--bytes-len", 4 if quick else 5, "--arbitrary", 200000 if quick else 5000000, "--long", 30000 if quick else 1000000], 4, seed, weight=3, timeout=6000),
                eng("cfg-all-dbg", "serde", ["--shim", "shadow", "--strings", 3000, "--bytes-len", 3, "--arbitrary", 20000, "--long", 3000], 2, seed + 1, weight=3),
                eng("miri-all", "serde", ["--strings", 6, "--bytes-len", 1, "--arbitrary", 30, "--long", 6], 8, seed + 2, **MT)]
        p["jobs"] = jobs
        p["assumptions"] += ["only the (de)serializers available offline are used: serde_json and serde::de::value"]
    elif n == 20:
        jobs = []
        cfgs = ["native-rel", "native-dbg", "cfg-nodefault-rel", "cfg-nodefault-dbg", "cfg-all-rel", "cfg-all-dbg"]
        for prof in ["default", "sharing", "errorpath"]:
            for fl in cfgs:
                j = ex(fl, prof, 250 if quick else 8000, 120, 4, seed, extra=["--digest"], weight=2, group="digest-" + prof)
                jobs.append(j)
        jobs += [ex("miri", "default", 2, 55, 4, seed + 1, **MT)]
        jobs += [eng("native-rel", "construct", ["--shim", "shadow", "--reps", 2], 1, seed + 2, weight=2),
                 eng("cfg-nodefault-rel", "construct", ["--shim", "shadow", "--reps", 2], 1, seed + 2, weight=2)]
        if not quick:
            jobs += [ex("asan", "default", 3000, 120, 4, seed + 3, weight=3), ex("asan", "errorpath", 3000, 120, 4, seed + 4, weight=3)]
        p["jobs"] = jobs
        p["digest_groups"] = True
        p["build_failure_is_violation"] = True
        p["assumptions"] += ["the no_std configuration is exercised from a std harness binary: the crate under test is built without its std feature, which is what the property is about"]
    else:
        return None
    if n in BIG32_PROPS:
        p["jobs"] += big32_jobs(tier, seed)
        p["rule"] += BIG32_RULE
    for j in p["jobs"]:
        j["args"] += ["--stat-props", str(n)]
        if n in (5, 6) and "--announce" not in j["args"]:
            j["args"] += ["--announce"]  # so that an aborted shard can name the case it was running
    return p


RULE_C04 = ("random programs from the property's grammar: one heap buffer (17-64 bytes, optional spare capacity), 2-3 threads (the main thread is one of them) each owning a clone (optionally pre-truncated) or borrowing &LeanString, each running 1-4 ops from {clone, clone_from, to_lean_string, drop, read, push, push_str, insert, insert_str, remove, retain, truncate, pop, clear, reserve, shrink_to}; plus two directed program shapes: 'directed pairs' (one thread reads and gives its handle up while the other, after 0-3 scheduler yields, makes ONE copy-or-in-place decision - reserve, push, insert, remove, retain, truncate, pop, clear, shrink_to in turn - so that the decision is taken while the count goes 2 -> 1; the sites whose in-place branch overwrites, moves or frees bytes the other thread has just read are drawn twice as often, and the giving thread reads first in 3 of 4 such programs) and, natively, 'hammers' (every thread clones and drops 40-160 times in a tight loop before editing its own handle, so that count updates overlap in time); released from one start barrier; every third Miri shard uses the release profile because the crate's debug assertions contain Acquire loads that would restore a missing happens-before edge; yields injected at the hook points between the uniqueness test / decrement and the access they guard. Oracle for races/UAF/leaks: Miri (vector clocks + weak-memory emulation), several -Zmiri-seed and preemption rates; oracle for values: one String model per thread; exactly-once release: alloc count == dealloc count after all handles are dropped. evaluations = executions; distinct_nontrivial = distinct observed interleavings, i.e. distinct sequences of (thread, hook site) per program as recorded by the Relaxed trace log")


def _strip(args, keys):
    out = []
    skip = False
    for a in args:
        if skip:
            skip = False
            continue
        if a in keys:
            skip = True
            continue
        out.append(a)
    return out


def aggregate(prop, plan, results):
    n = plan["primary"]
    decides = plan["decides"]
    viols = []
    cross = {}
    inconc = []
    evals = 0
    sigs = set()
    samples = []
    by_flavour = {}
    monitors = {}
    counters = {}
    matrix = {}
    reports = []
    extra_cov = {}
    total = len(results)
    digests = {}
    for r in results:
        job = r["job"]
        fl = job.get("label", job["flavour"])
        bf = by_flavour.setdefault(fl, {"shards_ok": 0, "shards_inconclusive": 0, "steps": 0, "evaluations": 0, "wall_s": 0.0})
        bf["wall_s"] = round(bf["wall_s"] + r["wall"], 1)
        lines = parse_lines(r["out"])
        stat = [l for l in lines if l.get("t") == "stat"]
        hists = [l for l in lines if l.get("t") == "hist"]
        vl = [l for l in lines if l.get("t") == "viol"]
        reps = sanitizer_reports(r["err"]) if (is_miri(job["flavour"]) or job["flavour"] in ("asan", "memcheck")) else []
        base_args = [str(a) for a in r["argv"]]
        for v in vl:
            pn = v.get("prop", 0)
            entry = {
                "property": "C%02d" % pn, "engine": v.get("engine"), "flavour": job["flavour"], "seed": r["seed"],
                "monitor": v.get("monitor"), "message": v.get("msg"), "hist": v.get("hist"),
                "oplog_tail": v.get("oplog_tail"),
                "args": _strip(base_args, {"--histories", "--first-history"}) + (["--first-history", str(v.get("hist", 0)), "--histories", "1"] if "hist" in v else []) + v.get("replay_extra", []),
                "signature": signature(v),
            }
            if pn in decides:
                viols.append(entry)
            else:
                k = "C%02d:%s" % (pn, v.get("monitor"))
                cross[k] = cross.get(k, 0) + 1
        real_reps = [x for x in reps if not x["unsupported"]]
        if vl:
            # after a monitor violation the harness abandons (mem::forget) the pool: leak reports of that process are a consequence
            real_reps = [x for x in real_reps if "leak" not in x["kind"].lower() and "lost" not in x["kind"]]
        for rep in real_reps:
            reports.append({"flavour": fl, **rep})
            h = hists[-1] if hists else {}
            entry = {
                "property": prop, "engine": job["engine"], "flavour": job["flavour"], "seed": r["seed"],
                "monitor": rep["tool"], "message": "%s %s" % (rep["kind"], rep["where"]), "hist": h.get("hist"),
                "miriflags": job.get("miriflags"),
                "args": _strip(base_args, {"--histories", "--first-history"}) + (["--first-history", str(h.get("hist", 0)), "--histories", "1"] if "hist" in h else []),
                "signature": "%s:%s:%s" % (rep["tool"], re.sub(r"alloc\d+|0x[0-9a-f]+|\d+", "N", rep["kind"])[:80], rep["fn"][:80]),
            }
            if plan.get("sanitizer_decides", True):
                viols.append(entry)
            else:
                cross["sanitizer:" + rep["kind"][:60]] = cross.get("sanitizer:" + rep["kind"][:60], 0) + 1
        # "never abort": a shard killed by the allocation-error handler is a finding of C05/C06, not a harness crash
        if n in (5, 6) and r["rc"] in (-6, 134) and "memory allocation of" in r["err"]:
            h = hists[-1] if hists else {}
            viols.append({
                "property": prop, "engine": job["engine"], "flavour": job["flavour"], "seed": r["seed"], "monitor": "process-abort",
                "message": "the process was aborted by the allocation-error handler (%s) while running %s" % (
                    (re.findall(r"memory allocation of \d+ bytes failed", r["err"]) or ["abort"])[0], h.get("case") or ("history %s" % h.get("hist"))),
                "hist": h.get("hist"), "args": base_args, "signature": "process-abort:%s" % job["engine"],
            })
            vl = vl or [{"synthetic": True}]
        ok = bool(stat) and not r["timed_out"]
        if not ok and not vl and not real_reps:
            reason = "timeout" if r["timed_out"] else "exit %s" % r["rc"]
            unsupported = [x["kind"] for x in reps if x["unsupported"]]
            if unsupported:
                reason = "miri: " + unsupported[0][:120]
            inconc.append({"flavour": fl, "seed": r["seed"], "reason": reason, "stderr_tail": r["err"][-600:]})
            bf["shards_inconclusive"] += 1
        else:
            bf["shards_ok"] += 1
        for s in stat:
            cov = s.get("cov")
            if cov and job.get("group"):
                first = ("VIOLATION:" + signature(vl[0]) + ":" + str(vl[0].get("hist"))) if vl else None
                digests.setdefault((job["group"], r["shard"]), {})[job["flavour"]] = (first or cov.get("digest"), cov.get("steps"), base_args, r["seed"], (vl[0].get("msg") if vl else None))
            if cov:
                bf["steps"] += cov.get("steps", 0)
                for pc in cov.get("props", []):
                    if pc["prop"] == n:
                        evals += pc["evals"]
                        bf["evaluations"] += pc["evals"]
                        sigs.update(pc.get("sigs", []))
                        for sm in pc.get("samples", []):
                            if len(samples) < 8 and sm not in samples:
                                samples.append(sm)
                for k, v in cov.get("monitors", {}).items():
                    m = monitors.setdefault(k, [0, 0])
                    m[0] += v[0]
                    m[1] += v[1]
                for k, v in cov.get("counters", {}).items():
                    counters[k] = counters.get(k, 0) + v
                for k, v in cov.get("matrix", {}).items():
                    matrix[k] = matrix.get(k, 0) + v
            # engine-specific coverage
            ec = s.get("ecov")
            if ec:
                evals += ec.get("evals", 0)
                bf["evaluations"] += ec.get("evals", 0)
                sigs.update(ec.get("sigs", []))
                for sm in ec.get("samples", []):
                    if len(samples) < 8 and sm not in samples:
                        samples.append(sm)
                for k, v in ec.get("counters", {}).items():
                    if isinstance(v, (int, float)):
                        counters[k] = counters.get(k, 0) + v
                for k, v in ec.get("info", {}).items():
                    extra_cov.setdefault(k, v)
                if ec.get("exhaustive") and ec.get("exhaustive_scope"):
                    exh = extra_cov.setdefault("_exh", {})
                    sc = "[%s] %s" % (fl, ec["exhaustive_scope"])
                    exh[sc] = max(exh.get(sc, 0), ec.get("evals", 0) + ec.get("cases", 0))
            cr = s.get("cross")
            if cr:
                for k, v in cr.get("counts", {}).items():
                    cross[k] = cross.get(k, 0) + v
                for sm in cr.get("samples", []):
                    xs = extra_cov.setdefault("cross_property_samples", [])
                    if len(xs) < 6:
                        xs.append(sm)
            if "swallowed_hint_failures" in s:
                counters["hint_reservation_failures_ignored_by_design"] = counters.get("hint_reservation_failures_ignored_by_design", 0) + s["swallowed_hint_failures"]
    if plan.get("digest_groups"):
        ngroups = 0
        for (g, sh), m in sorted(digests.items()):
            vals = set(v[0] for v in m.values())
            ngroups += 1
            if len(vals) > 1:
                any_fl = sorted(m)[0]
                viols.append({
                    "property": prop, "engine": "explore", "flavour": any_fl, "seed": m[any_fl][3], "monitor": "cross-config-digest",
                    "message": "behaviour differs between configurations for %s shard %d (same seeds): %s%s" % (g, sh, {k: v[0] for k, v in m.items()}, "".join(" | %s: %s" % (k, v[4][:300]) for k, v in m.items() if len(v) > 4 and v[4])[:900]),
                    "args": m[any_fl][2], "signature": "cross-config-digest:%s" % g,
                })
        counters["configurations_compared"] = max((len(m) for m in digests.values()), default=0)
        counters["digest_groups_compared"] = ngroups
        extra_cov["configuration_digests_sample"] = {("%s/%d" % k): {fl: v[0] for fl, v in m.items()} for k, m in list(sorted(digests.items()))[:3]}
    missing = [c for c in plan.get("require_cells", []) if counters.get("cell:" + c, 0) == 0]
    if missing:
        inconc.append({"flavour": "-", "seed": 0, "reason": "required cells never executed: %s" % missing, "fatal": True})
    fatal = len(inconc) * 2 > total
    for i in inconc:
        i["fatal"] = i.get("fatal", False) or fatal
    unreached = []
    coverage = {
        "evaluations": evals,
        "distinct_nontrivial": len(sigs),
        "rule": plan.get("rule", ""),
        "samples": samples,
        "by_flavour": by_flavour,
        "monitors": {k: {"evaluated": v[0], "precondition_met": v[1]} for k, v in sorted(monitors.items())},
        "counters": counters,
        "sanitizer_reports": reports[:20],
        "cross_property_events": cross,
        "shards": total,
    }
    if matrix:
        coverage["matrix"] = dict(sorted(matrix.items()))
    coverage.update(extra_cov)
    exh = coverage.pop("_exh", None)
    if exh:
        parts = [k for k, _ in sorted(exh.items(), key=lambda kv: -kv[1])][:3]
        coverage["exhaustive"] = True
        coverage["exhaustive_scope"] = "ONLY these finite tables were enumerated completely (everything else is sampled), largest first: " + " | ".join(parts)
    return {"violations": viols, "coverage": coverage, "inconclusive": inconc}


def signature(v):
    msg = v.get("msg", "")
    m = re.match(r"step \d+ (\w+)", msg)
    op = m.group(1) if m else v.get("case", "")
    return "%s:%s" % (v.get("monitor"), op)
