#!/bin/bash
# usage: keep_seed.sh <seed-name> <agent _out dir> "<what I ran / result>"
name="$1"; src="$2"; ran="$3"
d=/verif/seeded/$name; mkdir -p $d
cp "$src/patch.diff" $d/patch.diff; cp "$src/demo_seeded.rs" $d/demo_seeded.rs
python3 - "$src/meta.json" "$d/meta.json" "$ran" <<'PY'
import json,sys
m=json.load(open(sys.argv[1])); m["confirmed_by_me"]=sys.argv[3]; json.dump(m,open(sys.argv[2],"w"),indent=1)
PY
ls $d
