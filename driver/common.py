"""Shared driver pieces: paths, flavours, subprocess pool, sanitizer report parsing."""
import json, os, re, subprocess, sys, time
from concurrent.futures import ThreadPoolExecutor

VERIF = os.path.dirname(os.path.dirname(os.path.abspath(__file__)))
HARNESS = os.path.join(VERIF, "harness")
TARGET = os.path.join(VERIF, "target")
REPO = os.environ.get("VERIF_REPO", "/repo")
NCPU = int(os.environ.get("VERIF_JOBS", str(os.cpu_count() or 8)))
X86 = "x86_64-unknown-linux-gnu"


class BuildError(Exception):
    pass


def cargo_env(extra=None):
    env = dict(os.environ)
    env["CARGO_NET_OFFLINE"] = "true"
    env.pop("RUSTFLAGS", None)
    env.pop("MIRIFLAGS", None)
    env["RUST_BACKTRACE"] = "0"
    if extra:
        env.update(extra)
    return env


# name -> (target dir, cargo argv, relative binary path, env)
def _fl(target, argv, binpath, env=None):
    return {"target": os.path.join(TARGET, target), "argv": argv, "bin": binpath, "env": env or {}}


FLAVOURS = {
    "native-rel": _fl("native", ["cargo", "build", "--release"], "release/harness"),
    "native-dbg": _fl("native", ["cargo", "build"], "debug/harness"),
    "relassert": _fl("native", ["cargo", "build", "--profile", "relassert"], "relassert/harness"),
    "memcheck": _fl("native", ["cargo", "build", "--release"], "release/harness"),
    "asan": _fl("asan", ["cargo", "+nightly", "build", "--release", "--target", X86], X86 + "/release/harness",
                {"RUSTFLAGS": "-Zsanitizer=address -Cforce-frame-pointers=yes"}),
    "cfg-nodefault-rel": _fl("cfg-nodefault", ["cargo", "build", "--release", "--no-default-features"], "release/harness"),
    "cfg-nodefault-dbg": _fl("cfg-nodefault", ["cargo", "build", "--no-default-features"], "debug/harness"),
    "cfg-all-rel": _fl("cfg-all", ["cargo", "build", "--release", "--features", "extra"], "release/harness"),
    "cfg-all-dbg": _fl("cfg-all", ["cargo", "build", "--features", "extra"], "debug/harness"),
    # Miri flavours are "built" by running the no-op engine once
    "miri": _fl("miri", ["cargo", "+nightly", "miri", "run", "--quiet", "--"], None),
    "miri-all": _fl("miri-all", ["cargo", "+nightly", "miri", "run", "--quiet", "--features", "extra", "--"], None),
    "miri-i686": _fl("miri", ["cargo", "+nightly", "miri", "run", "--quiet", "--target", "i686-unknown-linux-gnu", "--"], None),
    "miri-be": _fl("miri", ["cargo", "+nightly", "miri", "run", "--quiet", "--target", "powerpc64-unknown-linux-gnu", "--"], None),
    # debug assertions off (release profile): the crate's debug_assert!s turn some misbehaviour into a panic, which hides what release builds do
    "miri-rel": _fl("miri", ["cargo", "+nightly", "miri", "run", "--quiet", "--release", "--"], None),
    "miri-i686-rel": _fl("miri", ["cargo", "+nightly", "miri", "run", "--quiet", "--release", "--target", "i686-unknown-linux-gnu", "--"], None),
    # 32-bit big-endian (the length/tag packing of the second word is endian-dependent)
    "miri-be32": _fl("miri", ["cargo", "+nightly", "miri", "run", "--quiet", "--target", "armeb-unknown-linux-gnueabi", "--"], None),
}

MIRI_BASE_FLAGS = "-Zmiri-strict-provenance -Zmiri-symbolic-alignment-check"
_built = set()


def is_miri(fl):
    return fl.startswith("miri")


def flavour_env(fl, miriflags=None):
    f = FLAVOURS[fl]
    extra = {"CARGO_TARGET_DIR": f["target"]}
    extra.update(f["env"])
    if is_miri(fl):
        extra["MIRIFLAGS"] = (MIRI_BASE_FLAGS + " " + (miriflags or "")).strip()
    if fl == "asan":
        extra["ASAN_OPTIONS"] = "detect_leaks=1:halt_on_error=1:abort_on_error=0:exitcode=98:allocator_may_return_null=1"
    return cargo_env(extra)


def flavour_cmd(fl):
    f = FLAVOURS[fl]
    if is_miri(fl):
        return list(f["argv"])
    binp = os.path.join(f["target"], f["bin"])
    if fl == "memcheck":
        return ["valgrind", "-q", "--error-exitcode=97", "--leak-check=full", "--errors-for-leak-kinds=definite,indirect",
                "--show-leak-kinds=definite,indirect", binp]
    return [binp]


def build_flavour(fl):
    if fl in _built:
        return
    f = FLAVOURS[fl]
    lock_src = os.path.join(REPO, "Cargo.lock")
    lock_dst = os.path.join(HARNESS, "Cargo.lock")
    if not os.path.exists(lock_dst) and os.path.exists(lock_src):
        import shutil
        shutil.copy(lock_src, lock_dst)
    env = flavour_env(fl)
    if is_miri(fl):
        argv = list(f["argv"]) + ["noop"]
    else:
        argv = list(f["argv"])
    p = subprocess.run(argv, cwd=HARNESS, env=env, capture_output=True, text=True)
    if p.returncode != 0:
        raise BuildError((p.stderr or p.stdout)[-3000:])
    _built.add(fl)


def run_one(job, shard, seed):
    fl = job["flavour"]
    argv = flavour_cmd(fl) + [job["engine"]] + [str(a) for a in job["args"]] + ["--seed", str(seed)]
    env = flavour_env(fl, job.get("miriflags"))
    t0 = time.time()
    timed_out = False
    try:
        p = subprocess.run(argv, cwd=HARNESS, env=env, capture_output=True, text=True, errors="replace",
                           timeout=job.get("timeout", 900))
        rc, out, err = p.returncode, p.stdout, p.stderr
    except subprocess.TimeoutExpired as e:
        timed_out = True
        rc = None
        out = e.stdout.decode("utf-8", "replace") if isinstance(e.stdout, bytes) else (e.stdout or "")
        err = e.stderr.decode("utf-8", "replace") if isinstance(e.stderr, bytes) else (e.stderr or "")
    return {"job": job, "shard": shard, "seed": seed, "rc": rc, "out": out, "err": err, "timed_out": timed_out,
            "wall": time.time() - t0, "argv": argv[len(flavour_cmd(fl)):]}


def run_jobs(jobs, base_seed=None):
    tasks = []
    for ji, job in enumerate(jobs):
        for sh in range(job.get("shards", 1)):
            if job.get("group"):
                # same seeds for every job of the group (cross-configuration digests)
                seed = job["seed"] * 1000003 + sh * 104729 + 1
            else:
                seed = job["seed"] * 1000003 + ji * 7919 + sh * 104729 + 1
            seed %= (1 << 53)
            tasks.append((job, sh, seed))
    # heavier jobs first
    tasks.sort(key=lambda t: -t[0].get("weight", 1))
    with ThreadPoolExecutor(max_workers=NCPU) as ex:
        futs = [ex.submit(run_one, *t) for t in tasks]
        return [f.result() for f in futs]


def parse_lines(out):
    res = []
    for line in out.splitlines():
        line = line.strip()
        if line.startswith("{") and line.endswith("}"):
            try:
                res.append(json.loads(line))
            except Exception:
                pass
    return res


_MIRI_ERR = re.compile(r"^error: (Undefined Behavior: .*|memory leaked.*|the evaluated program (leaked|deadlocked|aborted).*|deadlock.*|abnormal termination.*|unsupported operation: .*|resource exhaustion: .*)$", re.M)


def sanitizer_reports(err):
    """Parses Miri / ASan / LSan / valgrind reports out of stderr."""
    reps = []
    for m in _MIRI_ERR.finditer(err):
        kind = m.group(1)
        tail = err[m.end():m.end() + 6000]
        where = ""
        mm = re.search(r"(inside `[^`]*lean_string[^`]*`[^\n]*)", tail)
        if mm:
            where = mm.group(1)
        else:
            mm = re.search(r"--> (/repo/src/[^\n]+)", tail)
            if mm:
                where = mm.group(1)
        fn = ""
        mf = re.search(r"inside `([^`]*lean_string[^`]*)`", tail) or re.search(r"\n\s+\d+: (<?lean_string::[^\n]+)", tail)
        if mf:
            fn = mf.group(1).strip()
        reps.append({"tool": "miri", "kind": kind[:300], "where": where[:300], "fn": fn[:200],
                     "unsupported": kind.startswith("unsupported") or kind.startswith("resource")})
    for m in re.finditer(r"ERROR: (AddressSanitizer|LeakSanitizer): ([^\n]*)", err):
        tail = err[m.end():m.end() + 8000]
        fn = ""
        mf = re.search(r"#\d+ 0x[0-9a-f]+ in ([^\n]*lean_string[^\n]*)", tail)
        if mf:
            fn = mf.group(1)
        reps.append({"tool": "asan", "kind": (m.group(1) + ": " + m.group(2))[:300], "where": fn[:300], "fn": fn[:200], "unsupported": False})
    for m in re.finditer(r"==\d+== (Invalid (read|write|free)[^\n]*|[\d,]+ bytes in [\d,]+ blocks are (definitely|indirectly) lost[^\n]*|Mismatched free[^\n]*|Conditional jump or move depends on uninitialised[^\n]*)", err):
        tail = err[m.end():m.end() + 4000]
        fn = ""
        mf = re.search(r"(?:by|at) 0x[0-9A-F]+: ([^\n]*lean_string[^\n]*)", tail)
        if mf:
            fn = mf.group(1)
        reps.append({"tool": "memcheck", "kind": m.group(1)[:300], "where": fn[:300], "fn": fn[:200], "unsupported": False})
    return reps


def load_known():
    known = set()
    path = os.path.join(VERIF, "known_findings.txt")
    if not os.path.exists(path):
        return known
    for line in open(path):
        line = line.strip()
        if not line or line.startswith("#"):
            continue
        m = re.match(r"^(open|fixed): property=(C\d+) (.*)$", line)
        if m and m.group(1) == "open":
            known.add(("open", m.group(2), m.group(3).strip()))
    return known
