#!/bin/bash
# usage: trymutant.sh <patch> <check args...>   (applies to /repo, runs ./check, always restores /repo)
patch="$(realpath "$1")"; shift
cd /verif
if ! git -C /repo diff --quiet; then echo "refusing: /repo has uncommitted changes"; exit 3; fi
git -C /repo apply "$(realpath "$patch")" || { echo "patch does not apply"; exit 3; }
trap 'git -C /repo checkout -- . ; git -C /repo clean -fdq src tests 2>/dev/null' EXIT
"$@"
echo "exit=$?"
