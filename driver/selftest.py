"""`./check selftest [name-substring ...] [--tier quick|thorough] [--all-props]`

Applies every patch under /verif/seeded/*/patch.diff and /verif/mutants/*.patch to /repo (git apply),
runs the quick check of the property it is meant to break, expects exit 1 with a VIOLATION line for
that property, and restores /repo (git checkout) straight afterwards. Results go to
/verif/selftest_results.json. Not a registered check.
"""
import glob, json, os, re, subprocess, sys, time
from common import VERIF, REPO


def sh(cmd, **kw):
    return subprocess.run(cmd, shell=True, capture_output=True, text=True, **kw)


def candidates():
    out = []
    for d in sorted(glob.glob(os.path.join(VERIF, "seeded", "*"))):
        p = os.path.join(d, "patch.diff")
        if os.path.exists(p):
            prop = os.path.basename(d).split("-")[0]
            out.append((os.path.basename(d), p, prop, "seeded"))
    for p in sorted(glob.glob(os.path.join(VERIF, "mutants", "*.patch"))):
        name = os.path.basename(p)[:-6]
        meta = os.path.join(VERIF, "mutants", "props.json")
        props = json.load(open(meta)) if os.path.exists(meta) else {}
        prop = props.get(name)
        if prop:
            out.append((name, p, prop, "mutant"))
    return out


def main(argv):
    tier = "quick"
    if "--tier" in argv:
        tier = argv[argv.index("--tier") + 1]
    extra_props = None
    if "--props" in argv:
        extra_props = argv[argv.index("--props") + 1].split(",")
    filt = [a for a in argv if not a.startswith("--") and a not in (tier,) and (extra_props is None or a != ",".join(extra_props))]
    if sh("git -C %s diff --quiet" % REPO).returncode != 0:
        print("refusing: %s has uncommitted changes" % REPO)
        return 3
    respath = os.path.join(VERIF, "selftest_results.json")
    results = json.load(open(respath)) if os.path.exists(respath) else {}
    for name, patch, prop, kind in candidates():
        if filt and not any(f in name for f in filt):
            continue
        props = extra_props or [prop]
        for pr in props:
            t0 = time.time()
            a = sh("git -C %s apply %s" % (REPO, patch))
            if a.returncode != 0:
                print("%-50s %s: PATCH DOES NOT APPLY: %s" % (name, pr, a.stderr.strip()[:200]))
                results["%s@%s" % (name, pr)] = {"result": "patch-does-not-apply"}
                continue
            try:
                r = sh("./check run %s --tier %s" % (pr, tier), cwd=VERIF, env=dict(os.environ, VERIF_SEED=os.environ.get("VERIF_SEED", "1"),
                                                                                     VERIF_EVIDENCE_DIR=os.path.join(VERIF, "target", "selftest-evidence"),
                                                                                     VERIF_REPLAY_DIR=os.path.join(VERIF, "target", "selftest-replays")))
            finally:
                sh("git -C %s checkout -- ." % REPO)
            viol = [l for l in r.stdout.splitlines() if l.startswith("VIOLATION property=%s " % pr)]
            detail = [l.strip() for l in r.stdout.splitlines() if l.startswith("  %s [" % pr)][:2]
            caught = r.returncode == 1 and bool(viol)
            verdict = "caught" if caught else ("MISSED (exit %d)" % r.returncode)
            print("%-50s %s: %s in %.0fs %s" % (name, pr, verdict, time.time() - t0, (detail[0][:160] if detail else "")), flush=True)
            results["%s@%s" % (name, pr)] = {"kind": kind, "property": pr, "tier": tier, "result": "caught" if caught else "missed", "exit": r.returncode,
                                             "first_report": detail[0] if detail else "", "wall_s": round(time.time() - t0, 1)}
            json.dump(results, open(respath, "w"), indent=1)
    print("(evidence and replay files of these mutated runs went to target/selftest-*; /verif/evidence is untouched)")
    return 0
